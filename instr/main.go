// Command instr inserts the simulation seams into gSuneido mechanically: it rewrites the
// non-test Go files of every gsuneido package in the dependency closure of the requested
// packages and writes them, plus an overlay.json for `go build -overlay`, to the output
// directory. /repo itself is never modified. See DESIGN.md section 3.3.
package main

import (
	"bytes"
	"crypto/ed25519"
	"crypto/rand"
	"crypto/x509"
	"crypto/x509/pkix"
	"encoding/json"
	"encoding/pem"
	"flag"
	"fmt"
	"go/ast"
	"go/constant"
	"go/format"
	"go/token"
	"go/types"
	"math/big"
	"os"
	"path/filepath"
	"sort"
	"strconv"
	"strings"
	"time"

	"golang.org/x/tools/go/ast/astutil"
	"golang.org/x/tools/go/packages"
)

const modPrefix = "github.com/apmckinlay/gsuneido"
const simPkg = "verifsim/simrt"

var importSwap = map[string][2]string{ // path -> {new path, default name}
	"sync":                   {simPkg + "/simsync", "sync"},
	"sync/atomic":            {simPkg + "/simatomic", "atomic"},
	"math/rand/v2":           {simPkg + "/simrand", "rand"},
	"math/rand":              {simPkg + "/simrandv1", "rand"},
	"crypto/rand":            {simPkg + "/simcrand", "rand"},
	"hash/maphash":           {simPkg + "/simmaphash", "maphash"},
	"log":                    {simPkg + "/simlog", "log"},
	"golang.org/x/time/rate": {simPkg + "/simrate", "rate"},
}

type stats struct {
	Files, Changed                                      int
	Imports, Go, Send, Recv, Close, RangeChan, Select   int
	MapRange, MapRangeUnordered, TimeNow, Sleep, OsExit int
	StmtYields                                          int
	Consts                                              int
	Unordered                                           []string
	Packages                                            []string
}

var st stats
var errs []string

func main() {
	repo := flag.String("repo", "/repo", "repository root")
	out := flag.String("out", "", "output directory")
	tags := flag.String("tags", "verif", "build tags")
	stmtYield := flag.String("stmtyield", "", "comma separated repo-relative files that get a yield before every statement")
	setConst := flag.String("setconst", "", "comma separated file:name=value: replace the value of a package level constant (a tuning knob)")
	inOverlay := flag.String("inoverlay", "", "comma separated repo-relative-file=replacement-file: read these files instead of the repository's (a patch under test, /repo untouched)")
	flag.Parse()
	if *out == "" || flag.NArg() == 0 {
		fmt.Fprintln(os.Stderr, "usage: instr -out dir [-repo /repo] pkg...")
		os.Exit(2)
	}
	if err := os.MkdirAll(*out, 0o755); err != nil {
		die(err)
	}
	overlay := map[string]string{}

	// git-ignored secrets needed by //go:embed in dbms
	crt := filepath.Join(*repo, "dbms", "server.crt")
	key := filepath.Join(*repo, "dbms", "server.key")
	listOverlay := map[string][]byte{}
	if _, err := os.Stat(crt); err != nil {
		c, k := genCert()
		cp := filepath.Join(*out, "server.crt")
		kp := filepath.Join(*out, "server.key")
		must(os.WriteFile(cp, c, 0o644))
		must(os.WriteFile(kp, k, 0o600))
		overlay[crt] = cp
		overlay[key] = kp
		listOverlay[crt] = c
		listOverlay[key] = k
	}

	patched := map[string]string{} // absolute repo path -> replacement file
	for _, f := range strings.Split(*inOverlay, ",") {
		if f == "" {
			continue
		}
		rel, repl, ok := strings.Cut(f, "=")
		if !ok {
			die(fmt.Errorf("bad -inoverlay %q", f))
		}
		b, err := os.ReadFile(repl)
		must(err)
		abs := filepath.Join(*repo, rel)
		patched[abs] = repl
		listOverlay[abs] = b
	}

	stmtFiles := map[string]bool{}
	for _, f := range strings.Split(*stmtYield, ",") {
		if f != "" {
			stmtFiles[filepath.Join(*repo, f)] = true
		}
	}

	constFiles := map[string]map[string]string{}
	for _, f := range strings.Split(*setConst, ",") {
		if f == "" {
			continue
		}
		file, rest, ok1 := strings.Cut(f, ":")
		name, val, ok2 := strings.Cut(rest, "=")
		if !ok1 || !ok2 {
			die(fmt.Errorf("bad -setconst %q", f))
		}
		file = filepath.Join(*repo, file)
		if constFiles[file] == nil {
			constFiles[file] = map[string]string{}
		}
		constFiles[file][name] = val
	}

	cfg := &packages.Config{
		Mode: packages.NeedName | packages.NeedFiles | packages.NeedCompiledGoFiles | packages.NeedImports |
			packages.NeedDeps | packages.NeedTypes | packages.NeedSyntax | packages.NeedTypesInfo | packages.NeedModule,
		Dir:        *repo,
		BuildFlags: []string{"-tags=" + *tags},
		Overlay:    listOverlay,
		Env:        append(os.Environ(), "GOFLAGS=-mod=mod", "GOPROXY=off", "GOSUMDB=off", "GOTOOLCHAIN=local"),
	}
	var pats []string
	for _, p := range flag.Args() {
		pats = append(pats, modPrefix+"/"+strings.TrimPrefix(p, "/"))
	}
	pkgs, err := packages.Load(cfg, pats...)
	if err != nil {
		die(err)
	}
	seen := map[string]bool{}
	var all []*packages.Package
	var visit func(p *packages.Package)
	visit = func(p *packages.Package) {
		if seen[p.PkgPath] {
			return
		}
		seen[p.PkgPath] = true
		for _, q := range p.Imports {
			visit(q)
		}
		if p.PkgPath == modPrefix || strings.HasPrefix(p.PkgPath, modPrefix+"/") {
			all = append(all, p)
		}
	}
	for _, p := range pkgs {
		visit(p)
	}
	sort.Slice(all, func(i, j int) bool { return all[i].PkgPath < all[j].PkgPath })
	for _, p := range all {
		if len(p.Errors) > 0 {
			for _, e := range p.Errors {
				errs = append(errs, p.PkgPath+": "+e.Error())
			}
			continue
		}
		st.Packages = append(st.Packages, p.PkgPath)
		for i, f := range p.Syntax {
			name := p.CompiledGoFiles[i]
			if !strings.HasSuffix(name, ".go") || strings.HasSuffix(name, "_test.go") {
				continue
			}
			st.Files++
			r := &rewriter{pkg: p, file: f, fset: p.Fset, info: p.TypesInfo, fname: name, stmtYield: stmtFiles[name], setConst: constFiles[name]}
			if !r.rewrite() {
				if repl, ok := patched[name]; ok {
					overlay[name] = repl // not instrumented, but replaced
				}
				continue
			}
			st.Changed++
			var buf bytes.Buffer
			if err := format.Node(&buf, p.Fset, f); err != nil {
				errs = append(errs, fmt.Sprintf("%s: print: %v", name, err))
				continue
			}
			rel, _ := filepath.Rel(*repo, name)
			dst := filepath.Join(*out, "src", rel)
			must(os.MkdirAll(filepath.Dir(dst), 0o755))
			must(os.WriteFile(dst, buf.Bytes(), 0o644))
			overlay[name] = dst
		}
	}
	if len(errs) > 0 {
		for _, e := range errs {
			fmt.Fprintln(os.Stderr, "instr:", e)
		}
		os.Exit(2)
	}
	ob, _ := json.MarshalIndent(map[string]any{"Replace": overlay}, "", " ")
	must(os.WriteFile(filepath.Join(*out, "overlay.json"), ob, 0o644))
	sb, _ := json.MarshalIndent(st, "", " ")
	must(os.WriteFile(filepath.Join(*out, "instr-stats.json"), sb, 0o644))
	fmt.Printf("instr: %d packages, %d files, %d rewritten (go=%d send=%d recv=%d close=%d rangechan=%d select=%d maprange=%d unordered-maprange=%d now=%d sleep=%d)\n",
		len(st.Packages), st.Files, st.Changed, st.Go, st.Send, st.Recv, st.Close, st.RangeChan, st.Select, st.MapRange, st.MapRangeUnordered, st.TimeNow, st.Sleep)
}

func die(err error) {
	fmt.Fprintln(os.Stderr, "instr:", err)
	os.Exit(2)
}

func must(err error) {
	if err != nil {
		die(err)
	}
}

func genCert() (certPEM, keyPEM []byte) {
	pub, priv, err := ed25519.GenerateKey(rand.Reader)
	must(err)
	tmpl := &x509.Certificate{
		SerialNumber: big.NewInt(1),
		Subject:      pkix.Name{CommonName: "verif"},
		NotBefore:    time.Date(1990, 1, 1, 0, 0, 0, 0, time.UTC),
		NotAfter:     time.Date(2100, 1, 1, 0, 0, 0, 0, time.UTC),
		KeyUsage:     x509.KeyUsageDigitalSignature,
		ExtKeyUsage:  []x509.ExtKeyUsage{x509.ExtKeyUsageServerAuth},
		DNSNames:     []string{"localhost"},
	}
	der, err := x509.CreateCertificate(rand.Reader, tmpl, tmpl, pub, priv)
	must(err)
	kb, err := x509.MarshalPKCS8PrivateKey(priv)
	must(err)
	return pem.EncodeToMemory(&pem.Block{Type: "CERTIFICATE", Bytes: der}),
		pem.EncodeToMemory(&pem.Block{Type: "PRIVATE KEY", Bytes: kb})
}

// ---------------------------------------------------------------------------------------

type rewriter struct {
	pkg       *packages.Package
	file      *ast.File
	fset      *token.FileSet
	info      *types.Info
	fname     string
	changed   bool
	needSim   bool
	usedTime  bool
	stmtYield bool
	setConst  map[string]string
	tmp       int
}

func (r *rewriter) pos(n ast.Node) string { return r.fset.Position(n.Pos()).String() }

func (r *rewriter) errorf(n ast.Node, format string, args ...any) {
	errs = append(errs, r.pos(n)+": "+fmt.Sprintf(format, args...))
}

func sim(name string) ast.Expr {
	return &ast.SelectorExpr{X: ast.NewIdent("_simrt"), Sel: ast.NewIdent(name)}
}

func call(fn ast.Expr, args ...ast.Expr) *ast.CallExpr {
	return &ast.CallExpr{Fun: fn, Args: args}
}

func (r *rewriter) simCall(name string, args ...ast.Expr) *ast.CallExpr {
	r.needSim = true
	r.changed = true
	return call(sim(name), args...)
}

func (r *rewriter) fresh(prefix string) *ast.Ident {
	r.tmp++
	return ast.NewIdent(fmt.Sprintf("_%s%d", prefix, r.tmp))
}

func (r *rewriter) isPkg(e ast.Expr, path string) bool {
	id, ok := e.(*ast.Ident)
	if !ok {
		return false
	}
	pn, ok := r.info.Uses[id].(*types.PkgName)
	return ok && pn.Imported().Path() == path
}

func (r *rewriter) isBuiltin(e ast.Expr, name string) bool {
	id, ok := e.(*ast.Ident)
	if !ok || id.Name != name {
		return false
	}
	_, ok = r.info.Uses[id].(*types.Builtin)
	return ok
}

func (r *rewriter) typeOf(e ast.Expr) types.Type {
	if tv, ok := r.info.Types[e]; ok {
		return tv.Type
	}
	return nil
}

func (r *rewriter) isConstOrNil(e ast.Expr) bool {
	tv, ok := r.info.Types[e]
	if !ok {
		return false
	}
	return tv.Value != nil || tv.IsNil()
}

func isChan(t types.Type) bool {
	if t == nil {
		return false
	}
	_, ok := t.Underlying().(*types.Chan)
	return ok
}

func (r *rewriter) rewrite() bool {
	// imports
	for _, imp := range r.file.Imports {
		p, _ := strconv.Unquote(imp.Path.Value)
		if sw, ok := importSwap[p]; ok {
			if imp.Name == nil {
				imp.Name = ast.NewIdent(sw[1])
			}
			imp.Path.Value = strconv.Quote(sw[0])
			imp.EndPos = 0
			r.changed = true
			st.Imports++
		}
	}

	pre := func(c *astutil.Cursor) bool {
		// the communication of a select clause is handled with the select as a whole
		if _, ok := c.Parent().(*ast.CommClause); ok && c.Name() == "Comm" {
			return false
		}
		return true
	}
	post := func(c *astutil.Cursor) bool {
		switch n := c.Node().(type) {
		case *ast.GoStmt:
			c.Replace(r.goStmt(n))
		case *ast.SendStmt:
			if !r.inStmtList(c) {
				r.errorf(n, "send statement in unsupported position")
				return true
			}
			st.Send++
			c.Replace(&ast.BlockStmt{List: []ast.Stmt{
				&ast.ExprStmt{X: r.simCall("Yield")}, n, &ast.ExprStmt{X: r.simCall("YieldHard")}}})
		case *ast.UnaryExpr:
			if n.Op == token.ARROW {
				st.Recv++
				// v, ok := <-ch has a tuple type
				if tup, ok := r.typeOf(n).(*types.Tuple); ok && tup.Len() == 2 {
					c.Replace(r.simCall("Recv2", n.X))
				} else {
					c.Replace(r.simCall("Recv", n.X))
				}
			}
		case *ast.CallExpr:
			switch {
			case r.isBuiltin(n.Fun, "close") && len(n.Args) == 1:
				st.Close++
				n.Fun = sim("Close")
				r.needSim, r.changed = true, true
			case isSel(n.Fun, "Now") && r.isPkg(n.Fun.(*ast.SelectorExpr).X, "time"):
				st.TimeNow++
				n.Fun = sim("Now")
				r.needSim, r.changed, r.usedTime = true, true, true
			case isSel(n.Fun, "Sleep") && r.isPkg(n.Fun.(*ast.SelectorExpr).X, "time"):
				st.Sleep++
				n.Fun = sim("Sleep")
				r.needSim, r.changed, r.usedTime = true, true, true
			case isSel(n.Fun, "Exit") && r.isPkg(n.Fun.(*ast.SelectorExpr).X, "os"):
				st.OsExit++
				n.Fun = sim("Exit")
				r.needSim, r.changed = true, true
				r.file.Decls = append(r.file.Decls, useDecl("os", "Args"))
			}
		case *ast.RangeStmt:
			r.rangeStmt(n)
		case *ast.SelectStmt:
			r.selectStmt(c, n)
		}
		return true
	}
	astutil.Apply(r.file, pre, post)

	if r.stmtYield {
		r.insertStmtYields()
	}
	for _, d := range r.file.Decls {
		gd, ok := d.(*ast.GenDecl)
		if !ok || gd.Tok != token.CONST {
			continue
		}
		for _, sp := range gd.Specs {
			vs := sp.(*ast.ValueSpec)
			for i, n := range vs.Names {
				if v, ok := r.setConst[n.Name]; ok && i < len(vs.Values) {
					vs.Values[i] = &ast.BasicLit{Kind: token.INT, Value: v}
					delete(r.setConst, n.Name)
					st.Consts++
					r.changed = true
				}
			}
		}
	}
	for n := range r.setConst {
		errs = append(errs, r.fname+": constant "+n+" not found")
	}
	if !r.changed {
		return false
	}
	// keep only directive comments: ordinary comments would be re-attached at odd places
	// by the printer once statements have been replaced
	var keep []*ast.CommentGroup
	for _, cg := range r.file.Comments {
		for _, c := range cg.List {
			if strings.HasPrefix(c.Text, "//go:") || strings.HasPrefix(c.Text, "//line ") ||
				strings.HasPrefix(c.Text, "// +build") || strings.HasPrefix(c.Text, "//export ") {
				keep = append(keep, cg)
				break
			}
		}
	}
	r.file.Comments = keep
	if r.needSim {
		addImport(r.fset, r.file, "_simrt", simPkg)
	}
	if r.usedTime {
		r.file.Decls = append(r.file.Decls, useDecl("time", "Duration"))
	}
	return true
}

// useDecl returns `var _ pkg.Name` / `var _ = pkg.Name` so that an import stays used.
func useDecl(pkg, name string) ast.Decl {
	sel := &ast.SelectorExpr{X: ast.NewIdent(pkg), Sel: ast.NewIdent(name)}
	if pkg == "time" {
		return &ast.GenDecl{Tok: token.VAR, Specs: []ast.Spec{&ast.ValueSpec{Names: []*ast.Ident{ast.NewIdent("_")}, Type: sel}}}
	}
	return &ast.GenDecl{Tok: token.VAR, Specs: []ast.Spec{&ast.ValueSpec{Names: []*ast.Ident{ast.NewIdent("_")}, Values: []ast.Expr{sel}}}}
}

func isSel(e ast.Expr, name string) bool {
	s, ok := e.(*ast.SelectorExpr)
	return ok && s.Sel.Name == name
}

func addImport(fset *token.FileSet, f *ast.File, name, path string) {
	astutil.AddNamedImport(fset, f, name, path)
}

func (r *rewriter) inStmtList(c *astutil.Cursor) bool {
	switch c.Parent().(type) {
	case *ast.BlockStmt, *ast.CaseClause, *ast.CommClause:
		return c.Index() >= 0
	case *ast.LabeledStmt:
		return true
	}
	return false
}

// go f(a, b)  =>  { _f, _a, _b := f, a, b; _simrt.Go(func(){ _f(_a, _b) }) }
func (r *rewriter) goStmt(n *ast.GoStmt) ast.Stmt {
	st.Go++
	callx := n.Call
	var lhs, rhs []ast.Expr
	hoist := func(e ast.Expr, prefix string) ast.Expr {
		if r.isConstOrNil(e) {
			return e
		}
		switch x := e.(type) {
		case *ast.FuncLit:
			return e
		case *ast.Ident:
			// package-level functions and imported identifiers need no hoisting
			if obj := r.info.Uses[x]; obj != nil {
				if _, ok := obj.(*types.Func); ok {
					return e
				}
				if obj.Pkg() != nil && obj.Parent() == obj.Pkg().Scope() {
					if _, ok := obj.(*types.Var); !ok {
						return e
					}
				}
			}
		case *ast.SelectorExpr:
			if id, ok := x.X.(*ast.Ident); ok {
				if _, ok := r.info.Uses[id].(*types.PkgName); ok {
					if _, ok := r.info.Uses[x.Sel].(*types.Func); ok {
						return e
					}
				}
			}
		}
		if tv, ok := r.info.Types[e]; ok && (tv.IsType() || tv.IsBuiltin()) {
			return e
		}
		id := r.fresh(prefix)
		lhs = append(lhs, id)
		rhs = append(rhs, e)
		return ast.NewIdent(id.Name)
	}
	newCall := &ast.CallExpr{Ellipsis: callx.Ellipsis}
	newCall.Fun = hoist(callx.Fun, "f")
	// a single multi-valued argument f(g()) cannot be hoisted into one variable
	multi := false
	if len(callx.Args) == 1 {
		if tup, ok := r.typeOf(callx.Args[0]).(*types.Tuple); ok && tup.Len() > 1 {
			multi = true
		}
	}
	for _, a := range callx.Args {
		if multi {
			r.errorf(n, "go statement with multi-valued argument not supported")
			newCall.Args = append(newCall.Args, a)
			continue
		}
		newCall.Args = append(newCall.Args, hoist(a, "a"))
	}
	goCall := r.simCall("Go", &ast.FuncLit{
		Type: &ast.FuncType{Params: &ast.FieldList{}},
		Body: &ast.BlockStmt{List: []ast.Stmt{&ast.ExprStmt{X: newCall}}},
	})
	if len(lhs) == 0 {
		return &ast.ExprStmt{X: goCall}
	}
	return &ast.BlockStmt{List: []ast.Stmt{
		&ast.AssignStmt{Lhs: lhs, Tok: token.DEFINE, Rhs: rhs},
		&ast.ExprStmt{X: goCall},
	}}
}

var orderedBasic = types.IsOrdered

func (r *rewriter) rangeStmt(n *ast.RangeStmt) {
	t := r.typeOf(n.X)
	if t == nil {
		return
	}
	switch u := t.Underlying().(type) {
	case *types.Chan:
		st.RangeChan++
		n.X = r.simCall("RangeChan", n.X)
	case *types.Map:
		if n.Key == nil && n.Value == nil {
			return // `for range m` only counts
		}
		if b, ok := u.Key().Underlying().(*types.Basic); ok && b.Info()&orderedBasic != 0 {
			st.MapRange++
			n.X = r.simCall("OrderedMap", n.X)
			return
		}
		st.MapRangeUnordered++
		st.Unordered = append(st.Unordered, fmt.Sprintf("%s: range over map[%s]", r.pos(n), u.Key().String()))
	}
}

func (r *rewriter) selectStmt(c *astutil.Cursor, n *ast.SelectStmt) {
	st.Select++
	r.needSim, r.changed = true, true
	var pre []ast.Stmt
	var cases []ast.Expr
	sw := &ast.SwitchStmt{Body: &ast.BlockStmt{}}
	selID := r.fresh("sel")
	hasDefault := false
	usesSel := false
	idx := 0
	for _, cl := range n.Body.List {
		cc := cl.(*ast.CommClause)
		if cc.Comm == nil {
			hasDefault = true
			sw.Body.List = append(sw.Body.List, &ast.CaseClause{Body: cc.Body})
			continue
		}
		var body []ast.Stmt
		switch comm := cc.Comm.(type) {
		case *ast.SendStmt:
			ch := r.fresh("c")
			pre = append(pre, &ast.AssignStmt{Lhs: []ast.Expr{ch}, Tok: token.DEFINE, Rhs: []ast.Expr{comm.Chan}})
			var val ast.Expr = comm.Value
			if !r.isConstOrNil(val) {
				v := r.fresh("v")
				pre = append(pre, &ast.AssignStmt{Lhs: []ast.Expr{v}, Tok: token.DEFINE, Rhs: []ast.Expr{comm.Value}})
				val = ast.NewIdent(v.Name)
			}
			cases = append(cases, call(sim("SelSend"), ast.NewIdent(ch.Name), val))
		case *ast.ExprStmt: // <-ch
			u, ok := ast.Unparen(comm.X).(*ast.UnaryExpr)
			if !ok || u.Op != token.ARROW {
				r.errorf(comm, "unsupported select communication")
				return
			}
			ch := r.fresh("c")
			pre = append(pre, &ast.AssignStmt{Lhs: []ast.Expr{ch}, Tok: token.DEFINE, Rhs: []ast.Expr{u.X}})
			cases = append(cases, call(sim("SelRecv"), ast.NewIdent(ch.Name)))
		case *ast.AssignStmt: // v := <-ch ; v, ok = <-ch
			if len(comm.Rhs) != 1 {
				r.errorf(comm, "unsupported select communication")
				return
			}
			u, ok := ast.Unparen(comm.Rhs[0]).(*ast.UnaryExpr)
			if !ok || u.Op != token.ARROW {
				r.errorf(comm, "unsupported select communication")
				return
			}
			ch := r.fresh("c")
			pre = append(pre, &ast.AssignStmt{Lhs: []ast.Expr{ch}, Tok: token.DEFINE, Rhs: []ast.Expr{u.X}})
			cases = append(cases, call(sim("SelRecv"), ast.NewIdent(ch.Name)))
			rhs := []ast.Expr{call(sim("As"), ast.NewIdent(ch.Name), ast.NewIdent(selID.Name))}
			if len(comm.Lhs) == 2 {
				rhs = append(rhs, &ast.SelectorExpr{X: ast.NewIdent(selID.Name), Sel: ast.NewIdent("OK")})
			}
			usesSel = true
			body = append(body, &ast.AssignStmt{Lhs: comm.Lhs, Tok: comm.Tok, Rhs: rhs})
			if comm.Tok == token.DEFINE {
				// avoid "declared and not used" when the body ignores a variable
				for _, l := range comm.Lhs {
					if id, ok := l.(*ast.Ident); ok && id.Name != "_" {
						body = append(body, &ast.AssignStmt{Lhs: []ast.Expr{ast.NewIdent("_")}, Tok: token.ASSIGN, Rhs: []ast.Expr{ast.NewIdent(id.Name)}})
					}
				}
			}
		default:
			r.errorf(cc, "unsupported select communication")
			return
		}
		body = append(body, cc.Body...)
		sw.Body.List = append(sw.Body.List, &ast.CaseClause{
			List: []ast.Expr{&ast.BasicLit{Kind: token.INT, Value: strconv.Itoa(idx)}}, Body: body})
		idx++
	}
	if !hasDefault {
		// unreachable, but keeps "missing return" analysis equal to the select's (a select
		// without default never falls through without executing a case)
		sw.Body.List = append(sw.Body.List, &ast.CaseClause{Body: []ast.Stmt{
			&ast.ExprStmt{X: call(ast.NewIdent("panic"), &ast.BasicLit{Kind: token.STRING, Value: `"simrt: select"`})}}})
	}
	args := []ast.Expr{ast.NewIdent(strconv.FormatBool(hasDefault))}
	args = append(args, cases...)
	pre = append(pre, &ast.AssignStmt{Lhs: []ast.Expr{selID}, Tok: token.DEFINE, Rhs: []ast.Expr{call(sim("Select"), args...)}})
	if !usesSel {
		_ = usesSel
	}
	sw.Tag = &ast.SelectorExpr{X: ast.NewIdent(selID.Name), Sel: ast.NewIdent("I")}
	var swStmt ast.Stmt = sw
	if lab, ok := c.Parent().(*ast.LabeledStmt); ok {
		// keep `break L` working: the label moves onto the generated switch
		name := lab.Label.Name
		lab.Label = ast.NewIdent("_" + name + "_outer")
		pre = append(pre, &ast.AssignStmt{Lhs: []ast.Expr{ast.NewIdent("_")}, Tok: token.ASSIGN, Rhs: []ast.Expr{ast.NewIdent("0")}})
		swStmt = &ast.LabeledStmt{Label: ast.NewIdent(name), Stmt: sw}
		r.errorf(n, "labelled select is not supported")
	}
	c.Replace(&ast.BlockStmt{List: append(pre, swStmt)})
}

// insertStmtYields puts _simrt.Yield() before every statement of every function body of
// the file (H7: interleavings inside method bodies).
func (r *rewriter) insertStmtYields() {
	yield := func() ast.Stmt { return &ast.ExprStmt{X: call(sim("Yield"))} }
	var doList func(list []ast.Stmt) []ast.Stmt
	doList = func(list []ast.Stmt) []ast.Stmt {
		var out []ast.Stmt
		for _, s := range list {
			switch s.(type) {
			case *ast.DeclStmt, *ast.EmptyStmt, *ast.LabeledStmt:
			default:
				out = append(out, yield())
				st.StmtYields++
			}
			out = append(out, s)
		}
		return out
	}
	// the body of a switch / select is a list of clauses, not of statements
	clauseBodies := map[*ast.BlockStmt]bool{}
	ast.Inspect(r.file, func(n ast.Node) bool {
		switch x := n.(type) {
		case *ast.SwitchStmt:
			clauseBodies[x.Body] = true
		case *ast.TypeSwitchStmt:
			clauseBodies[x.Body] = true
		case *ast.SelectStmt:
			clauseBodies[x.Body] = true
		}
		return true
	})
	ast.Inspect(r.file, func(n ast.Node) bool {
		switch x := n.(type) {
		case *ast.BlockStmt:
			if !clauseBodies[x] {
				x.List = doList(x.List)
			}
		case *ast.CaseClause:
			x.Body = doList(x.Body)
		case *ast.CommClause:
			x.Body = doList(x.Body)
		}
		return true
	})
	if st.StmtYields > 0 {
		r.needSim, r.changed = true, true
	}
}

var _ = constant.MakeBool
