#!/bin/sh
# tools_seeded.sh <seeded-id> <property> [seconds]
# Applies /verif/seeded/<id>/patch.diff to /repo, runs the property's quick check, and
# undoes the patch again. Prints the check's verdict. Never commits anything in /repo.
id=$1; prop=$2; secs=${3:-60}
cd /repo || exit 2
if ! git diff --quiet; then echo "/repo has uncommitted changes"; exit 2; fi
git apply /verif/seeded/$id/patch.diff || { echo "patch does not apply"; exit 2; }
cd /verif && ./check $prop quick -seconds $secs > /tmp/seeded_$id_$prop.log 2>&1
code=$?
cd /repo && git checkout -- . && git clean -fdq -- . >/dev/null 2>&1
echo "seeded=$id property=$prop exit=$code $(grep -a -m1 '^VIOLATION\|^OK\|machinery' /tmp/seeded_$id_$prop.log | cut -c1-160)"
grep -a -A2 -m1 '^VIOLATION' /tmp/seeded_$id_$prop.log | tail -2 | cut -c1-240
exit $code
