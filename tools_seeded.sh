#!/bin/sh
# tools_seeded.sh <seeded-id> <property> [seconds]
# Runs the property's quick check against /repo with /verif/seeded/<id>/patch.diff applied to
# copies of the files it touches (VERIF_PATCH: the build reads the patched copies, /repo itself
# is not modified, so this can run beside other checks). Prints the check's verdict.
id=$1; prop=$2; secs=${3:-60}
cd /verif || exit 2
VERIF_PATCH=/verif/seeded/$id/patch.diff ./check $prop quick -seconds $secs > /tmp/seeded_${id}_$prop.log 2>&1
code=$?
echo "seeded=$id property=$prop exit=$code $(grep -a -m1 '^VIOLATION\|^OK\|machinery' /tmp/seeded_${id}_$prop.log | cut -c1-160)"
grep -a -A2 -m1 '^VIOLATION' /tmp/seeded_${id}_$prop.log | tail -2 | cut -c1-240
exit $code
