#!/bin/sh
# Runs the repository's baseline test command (guard off) and compares the passing set
# with /root/.vp/BASELINE.json's stable_pass list. Usage: tools_baseline.sh [outfile]
OUT=${1:-/tmp/baseline_run.json}
cd /repo && go test -mod=mod -json -vet=off -count=1 -timeout 25m ./... > "$OUT" 2>/dev/null
python3 - "$OUT" <<'PY'
import json,sys
base=json.load(open('/root/.vp/BASELINE.json'))
stable=set(base['stable_pass'])
passed=set()
for l in open(sys.argv[1]):
    try: e=json.loads(l)
    except Exception: continue
    if e.get('Action')=='pass' and e.get('Test'):
        passed.add(e['Package']+'::'+e['Test'])
missing=sorted(stable-passed)
print('stable_pass', len(stable), 'passed now', len(passed), 'missing', len(missing))
for m in missing[:40]: print('  MISSING', m)
PY
