#!/bin/sh
# long_quick.sh [seconds]: every quick check with a longer budget (same seeds as the quick tier, more of them)
secs=${1:-240}
cd /verif
for id in $(python3 -c "import json; print(' '.join(c['property_id'] for c in json.load(open('MANIFEST.json'))['checks']))"); do
  start=$(date +%s)
  ./check $id quick -seconds $secs > /tmp/longquick_$id.log 2>&1
  code=$?
  echo "$id exit=$code $(( $(date +%s) - start ))s $(grep -a -m1 '^VIOLATION\|^OK\|machinery' /tmp/longquick_$id.log | cut -c1-160)"
done
