#!/usr/bin/env python3
# tools_meta.py <seeded-id> <property> <change> <needs> <demo-file> <detected_by> [missed_by_before]
# writes seeded/<id>/meta.json and appends a row to the sensitivity table of DESIGN.md
import json, sys
sid, prop, change, needs, demo, det = sys.argv[1:7]
missed = sys.argv[7] if len(sys.argv) > 7 else ""
d = {"id": sid, "breaks": prop, "source": "sub-agent (saw only the property text and a scratch worktree of /repo)",
     "change": change, "needs": needs, "demonstration": demo, "detected_by": [det],
     "ran": "./tools_seeded.sh %s %s 90" % (sid, prop)}
if missed:
    d["missed_by_before"] = missed
json.dump(d, open("/verif/seeded/%s/meta.json" % sid, "w"), indent=1)
s = open("/verif/DESIGN.md").read()
marker = "\n\nOwn mutations during construction:"
row = "| %s | %s | %s | %s | %s |" % (sid, prop, needs, det, ("missed at first: " + missed) if missed else "")
assert marker in s
s = s.replace(marker, "\n" + row + marker, 1)
open("/verif/DESIGN.md", "w").write(s)
