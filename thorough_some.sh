#!/bin/sh
# thorough_some.sh <seconds> <seed> <id>...: thorough checks for the listed properties
secs=$1; seed=$2; shift 2
cd /verif
for id in "$@"; do
  start=$(date +%s)
  ./check $id thorough -seconds $secs -seed $seed > /tmp/thorough_$id.log 2>&1
  code=$?
  echo "$id exit=$code $(( $(date +%s) - start ))s $(grep -a -m1 '^VIOLATION\|^OK\|machinery' /tmp/thorough_$id.log | cut -c1-160)"
done
