#!/bin/sh
# runs every registered quick check once (writes evidence files); prints a summary line per check
cd /verif
for id in $(python3 -c "import json; print(' '.join(c['property_id'] for c in json.load(open('MANIFEST.json'))['checks']))"); do
  start=$(date +%s)
  ./check $id quick > /tmp/quick_$id.log 2>&1
  code=$?
  echo "$id exit=$code $(( $(date +%s) - start ))s $(tail -1 /tmp/quick_$id.log | cut -c1-120)"
done
