package main

var dbPkgs = []string{"db19/...", "dbms/..."}

var props = map[string]propDef{
	"C17": {
		ID: "C17", Harness: "h1pq", Mode: "C17", Pkgs: []string{"util/queue"},
		QuickS: 40, ThoroughS: 900, Level: "exploration",
		Rule: "each run: 2-6 producer tasks put <=40 unique messages (tape-chosen priority 0-3, own or shared transaction id) into the real PriorityQueue while one consumer task gets them; the tape picks the policy and every interleaving at each mutex/cond operation. Non-trivial: at least 3 messages and at least one pair of operations of different tasks overlapped in time. Distinct: run digest (all scheduling decisions and put/get events).",
		Assume: []string{"sync.Mutex and sync.Cond are replaced by the simulated primitives of simrt/simsync (Signal wakes a tape-chosen waiter)", "interleavings are explored at synchronisation operations only", "porcupine v1.3.0; histories whose check exceeds 1 s real time are counted as unknown, never reported"},
		Comps:  map[string]string{"util/queue.PriorityQueue": "real", "sync primitives": "simulated (simsync)", "db19 checker": "stub: one consumer task calling Get"},
	},
}
