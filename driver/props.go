package main

var dbPkgs = []string{"db19/...", "dbms/..."}

var props = map[string]propDef{
	"C17": {
		ID: "C17", Harness: "h1pq", Mode: "C17", Pkgs: []string{"util/queue"},
		QuickS: 40, ThoroughS: 900, Level: "exploration",
		Rule: "each run: 2-6 producer tasks put <=40 unique messages (tape-chosen priority 0-3, own or shared transaction id) into the real PriorityQueue while one consumer task gets them; the tape picks the policy and every interleaving at each mutex/cond operation. Non-trivial: at least 3 messages and at least one pair of operations of different tasks overlapped in time. Distinct: run digest (all scheduling decisions and put/get events).",
		Assume: []string{"sync.Mutex and sync.Cond are replaced by the simulated primitives of simrt/simsync (Signal wakes a tape-chosen waiter)", "interleavings are explored at synchronisation operations only", "porcupine v1.3.0; histories whose check exceeds 1 s real time are counted as unknown, never reported"},
		Comps:  map[string]string{"util/queue.PriorityQueue": "real", "sync primitives": "simulated (simsync)", "db19 checker": "stub: one consumer task calling Get"},
	},
	"C18": {
		ID: "C18", Harness: "h2alloc", Mode: "C18", Pkgs: []string{"db19/stor"},
		QuickS: 40, ThoroughS: 900, Level: "exploration",
		Rule: "each run: 2-6 allocator tasks perform <=60 Alloc(n) calls on the real Stor over a heap store with tape-chosen chunk size 64-4096, sizes biased to 1, chunk-1, chunk, chunk/2+-1, chunk/4+-1; the tape decides the interleaving at every atomic operation and at the extend lock. Non-trivial: at least 3 allocations succeeded and at least 2 chunks were used (extend ran). Distinct: run digest (scheduling decisions and returned offsets).",
		Assume: []string{"sync/atomic operations are sequentially consistent scheduling points (simatomic); the extend lock is a simulated mutex", "heap store instead of mmap (chunk size is a knob so that chunk boundaries are crossed often)"},
		Comps:  map[string]string{"db19/stor.Stor (Alloc, extend, Data, Size)": "real", "storage implementation": "real heapStor (in-memory chunks)", "sync/atomic, sync.Mutex": "simulated scheduling points"},
	},
	"C01": {
		ID: "C01", Harness: "h3txn", Mode: "C01", Pkgs: dbPkgs,
		QuickS: 60, ThoroughS: 1200, Recycle: 400, Level: "exploration",
		Rule: "each run: tape-chosen schema family (A one table with key/index/unique; B composite key + key() table; C parent/child with block / cascade / cascade update foreign key; D two tables), 1-6 update clients x 1-5 transactions x 1-8 operations (lookup, forward/backward/partial scan, output, update, delete, think, abort/complete) over a 2-8 value key domain, 0-3 long-lived readers, optional admin client (index creation on a populated table, persist, full check), with MaxAge 3-20 ticks, persist interval 0.3-60 s, btree split 4-100, chunk size 16-128 KB, hash degraded to 64/16/6 bits; the tape decides every interleaving of clients, checker, merger and the 16 workers. Non-trivial: at least 2 commits were published and (some transaction committed after another transaction's commit was published since its snapshot, or at least 4 non-commit states (merges, persists, schema changes) were published). Distinct: run digest. Mix for this property: favours scans and small key domains.",
		Assume: h3assume,
		Comps: map[string]string{"db19 (Database, Check, CheckCo, tran, state, concur incl. 16 workers, meta, index overlay/ixbuf/btree, stor)": "real", "util/queue, util/ranges, util/ordset": "real", "dbms/query admin parser + DoAdmin": "real", "storage": "real heapStor (in memory)", "query engine / interpreter / triggers": "stub: MakeSuTran returns an empty SuTran; no Trigger_ globals", "sync, sync/atomic, channels, select, time, rand, maphash, log": "simulated seams (simrt)"},
	},
	"C02": {
		ID: "C02", Harness: "h3txn", Mode: "C02", Pkgs: dbPkgs,
		QuickS: 60, ThoroughS: 1200, Recycle: 400, Level: "exploration",
		Rule: "each run: tape-chosen schema family (A one table with key/index/unique; B composite key + key() table; C parent/child with block / cascade / cascade update foreign key; D two tables), 1-6 update clients x 1-5 transactions x 1-8 operations (lookup, forward/backward/partial scan, output, update, delete, think, abort/complete) over a 2-8 value key domain, 0-3 long-lived readers, optional admin client (index creation on a populated table, persist, full check), with MaxAge 3-20 ticks, persist interval 0.3-60 s, btree split 4-100, chunk size 16-128 KB, hash degraded to 64/16/6 bits; the tape decides every interleaving of clients, checker, merger and the 16 workers. Non-trivial: at least 2 commits were published and (some transaction committed after another transaction's commit was published since its snapshot, or at least 4 non-commit states (merges, persists, schema changes) were published). Distinct: run digest. Mix for this property: 1-3 long lived readers.",
		Assume: h3assume,
		Comps: map[string]string{"db19 (Database, Check, CheckCo, tran, state, concur incl. 16 workers, meta, index overlay/ixbuf/btree, stor)": "real", "util/queue, util/ranges, util/ordset": "real", "dbms/query admin parser + DoAdmin": "real", "storage": "real heapStor (in memory)", "query engine / interpreter / triggers": "stub: MakeSuTran returns an empty SuTran; no Trigger_ globals", "sync, sync/atomic, channels, select, time, rand, maphash, log": "simulated seams (simrt)"},
	},
	"C03": {
		ID: "C03", Harness: "h3txn", Mode: "C03", Pkgs: dbPkgs,
		QuickS: 60, ThoroughS: 1200, Recycle: 400, Level: "exploration",
		Rule: "each run: tape-chosen schema family (A one table with key/index/unique; B composite key + key() table; C parent/child with block / cascade / cascade update foreign key; D two tables), 1-6 update clients x 1-5 transactions x 1-8 operations (lookup, forward/backward/partial scan, output, update, delete, think, abort/complete) over a 2-8 value key domain, 0-3 long-lived readers, optional admin client (index creation on a populated table, persist, full check), with MaxAge 3-20 ticks, persist interval 0.3-60 s, btree split 4-100, chunk size 16-128 KB, hash degraded to 64/16/6 bits; the tape decides every interleaving of clients, checker, merger and the 16 workers. Non-trivial: at least 2 commits were published and (some transaction committed after another transaction's commit was published since its snapshot, or at least 4 non-commit states (merges, persists, schema changes) were published). Distinct: run digest. Mix for this property: more aborts, think times beyond MaxAge.",
		Assume: h3assume,
		Comps: map[string]string{"db19 (Database, Check, CheckCo, tran, state, concur incl. 16 workers, meta, index overlay/ixbuf/btree, stor)": "real", "util/queue, util/ranges, util/ordset": "real", "dbms/query admin parser + DoAdmin": "real", "storage": "real heapStor (in memory)", "query engine / interpreter / triggers": "stub: MakeSuTran returns an empty SuTran; no Trigger_ globals", "sync, sync/atomic, channels, select, time, rand, maphash, log": "simulated seams (simrt)"},
	},
	"C06": {
		ID: "C06", Harness: "h3txn", Mode: "C06", Pkgs: dbPkgs,
		QuickS: 60, ThoroughS: 1200, Recycle: 400, Level: "exploration",
		Rule: "each run: tape-chosen schema family (A one table with key/index/unique; B composite key + key() table; C parent/child with block / cascade / cascade update foreign key; D two tables), 1-6 update clients x 1-5 transactions x 1-8 operations (lookup, forward/backward/partial scan, output, update, delete, think, abort/complete) over a 2-8 value key domain, 0-3 long-lived readers, optional admin client (index creation on a populated table, persist, full check), with MaxAge 3-20 ticks, persist interval 0.3-60 s, btree split 4-100, chunk size 16-128 KB, hash degraded to 64/16/6 bits; the tape decides every interleaving of clients, checker, merger and the 16 workers. Non-trivial: at least 2 commits were published and (some transaction committed after another transaction's commit was published since its snapshot, or at least 4 non-commit states (merges, persists, schema changes) were published). Distinct: run digest. Mix for this property: three-index tables, index creation, cascades.",
		Assume: h3assume,
		Comps: map[string]string{"db19 (Database, Check, CheckCo, tran, state, concur incl. 16 workers, meta, index overlay/ixbuf/btree, stor)": "real", "util/queue, util/ranges, util/ordset": "real", "dbms/query admin parser + DoAdmin": "real", "storage": "real heapStor (in memory)", "query engine / interpreter / triggers": "stub: MakeSuTran returns an empty SuTran; no Trigger_ globals", "sync, sync/atomic, channels, select, time, rand, maphash, log": "simulated seams (simrt)"},
	},
	"C07": {
		ID: "C07", Harness: "h3txn", Mode: "C07", Pkgs: dbPkgs,
		QuickS: 60, ThoroughS: 1200, Recycle: 400, Level: "exploration",
		Rule: "each run: tape-chosen schema family (A one table with key/index/unique; B composite key + key() table; C parent/child with block / cascade / cascade update foreign key; D two tables), 1-6 update clients x 1-5 transactions x 1-8 operations (lookup, forward/backward/partial scan, output, update, delete, think, abort/complete) over a 2-8 value key domain, 0-3 long-lived readers, optional admin client (index creation on a populated table, persist, full check), with MaxAge 3-20 ticks, persist interval 0.3-60 s, btree split 4-100, chunk size 16-128 KB, hash degraded to 64/16/6 bits; the tape decides every interleaving of clients, checker, merger and the 16 workers. Non-trivial: at least 2 commits were published and (some transaction committed after another transaction's commit was published since its snapshot, or at least 4 non-commit states (merges, persists, schema changes) were published). Distinct: run digest. Mix for this property: collision mix on key and unique values.",
		Assume: h3assume,
		Comps: map[string]string{"db19 (Database, Check, CheckCo, tran, state, concur incl. 16 workers, meta, index overlay/ixbuf/btree, stor)": "real", "util/queue, util/ranges, util/ordset": "real", "dbms/query admin parser + DoAdmin": "real", "storage": "real heapStor (in memory)", "query engine / interpreter / triggers": "stub: MakeSuTran returns an empty SuTran; no Trigger_ globals", "sync, sync/atomic, channels, select, time, rand, maphash, log": "simulated seams (simrt)"},
	},
	"C08": {
		ID: "C08", Harness: "h3txn", Mode: "C08", Pkgs: dbPkgs,
		QuickS: 60, ThoroughS: 1200, Recycle: 400, Level: "exploration",
		Rule: "each run: tape-chosen schema family (A one table with key/index/unique; B composite key + key() table; C parent/child with block / cascade / cascade update foreign key; D two tables), 1-6 update clients x 1-5 transactions x 1-8 operations (lookup, forward/backward/partial scan, output, update, delete, think, abort/complete) over a 2-8 value key domain, 0-3 long-lived readers, optional admin client (index creation on a populated table, persist, full check), with MaxAge 3-20 ticks, persist interval 0.3-60 s, btree split 4-100, chunk size 16-128 KB, hash degraded to 64/16/6 bits; the tape decides every interleaving of clients, checker, merger and the 16 workers. Non-trivial: at least 2 commits were published and (some transaction committed after another transaction's commit was published since its snapshot, or at least 4 non-commit states (merges, persists, schema changes) were published). Distinct: run digest. Mix for this property: parent/child schemas only.",
		Assume: h3assume,
		Comps: map[string]string{"db19 (Database, Check, CheckCo, tran, state, concur incl. 16 workers, meta, index overlay/ixbuf/btree, stor)": "real", "util/queue, util/ranges, util/ordset": "real", "dbms/query admin parser + DoAdmin": "real", "storage": "real heapStor (in memory)", "query engine / interpreter / triggers": "stub: MakeSuTran returns an empty SuTran; no Trigger_ globals", "sync, sync/atomic, channels, select, time, rand, maphash, log": "simulated seams (simrt)"},
	},
	"C16": {
		ID: "C16", Harness: "h3txn", Mode: "C16", Pkgs: dbPkgs,
		QuickS: 60, ThoroughS: 1200, Recycle: 400, Level: "exploration",
		Rule: "each run: tape-chosen schema family (A one table with key/index/unique; B composite key + key() table; C parent/child with block / cascade / cascade update foreign key; D two tables), 1-6 update clients x 1-5 transactions x 1-8 operations (lookup, forward/backward/partial scan, output, update, delete, think, abort/complete) over a 2-8 value key domain, 0-3 long-lived readers, optional admin client (index creation on a populated table, persist, full check), with MaxAge 3-20 ticks, persist interval 0.3-60 s, btree split 4-100, chunk size 16-128 KB, hash degraded to 64/16/6 bits; the tape decides every interleaving of clients, checker, merger and the 16 workers. Non-trivial: at least 2 commits were published and (some transaction committed after another transaction's commit was published since its snapshot, or at least 4 non-commit states (merges, persists, schema changes) were published). Distinct: run digest. Mix for this property: tiny commits, persist interval <= 2 s, admin operations.",
		Assume: h3assume,
		Comps: map[string]string{"db19 (Database, Check, CheckCo, tran, state, concur incl. 16 workers, meta, index overlay/ixbuf/btree, stor)": "real", "util/queue, util/ranges, util/ordset": "real", "dbms/query admin parser + DoAdmin": "real", "storage": "real heapStor (in memory)", "query engine / interpreter / triggers": "stub: MakeSuTran returns an empty SuTran; no Trigger_ globals", "sync, sync/atomic, channels, select, time, rand, maphash, log": "simulated seams (simrt)"},
	},
	"C34": {
		ID: "C34", Harness: "h5ts", Mode: "C34", Pkgs: []string{"db19", "core"},
		QuickS: 40, ThoroughS: 900, Recycle: 2000, Level: "exploration",
		Rule: "each run: the bubble clock starts at a tape-chosen millisecond; the real server ticker, the real client expiry task, 1-4 goroutines sharing the client side batching (core.Thread.Timestamp) and 0-3 direct callers of db19.Timestamp each take 1-40 (sometimes 200-700) timestamps with think times of 0 ms - 30 s; 0-2 clock jumps of up to +-1 h; the tape decides every interleaving at the two locks and every time advance. Non-trivial: at least 5 timestamps and at least 2 callers. Distinct: run digest.",
		Assume: []string{"one client process per run (the batching state is process global); other clients are modelled as direct callers of the server function", "the client reaches the server through a stub IDbms whose Timestamp calls db19.Timestamp (the protocol is H6's subject)"},
		Comps:  map[string]string{"db19.Timestamp / ticker / StartTimestamps": "real", "core.Thread.Timestamp / tsExpire": "real", "core.SuDate / SuTimestamp arithmetic and comparison": "real", "client-server transport": "stub: IDbms.Timestamp calls db19.Timestamp directly", "clock": "simulated (bubble clock + injected skew)"},
	},
	"H3ALL": {
		ID: "H3ALL", Harness: "h3txn", Mode: "ALL", Pkgs: dbPkgs,
		QuickS: 60, ThoroughS: 1200, Recycle: 400, Level: "exploration",
		Rule: "development: all H3 oracles", Assume: h3assume,
	},
}

var h3assume = []string{
	"interleavings are explored at synchronisation operations (mutex, atomics, channels, select, timers), not below",
	"the reference model (maps of rows with the documented key / unique / foreign key rules) is trusted; index keys are computed with gSuneido's own ixkey.Spec.Key",
	"heap store (no mmap file) in this harness; no query engine or interpreter (triggers find no Trigger_ global)",
}
