package main

var dbPkgs = []string{"db19/...", "dbms/..."}

// the chunk size of memory mapped files is a build-time constant (64 MB): the H4 builds use
// 128 KB so that databases of a few hundred KB span several chunks (chunk boundaries in
// allocation, state search, crash images)
const h4const = "db19/stor/mmapstor.go:mmapChunkSize=131072"

var props = map[string]propDef{
	"C17": {
		ID: "C17", Harness: "h1pq", Mode: "C17", Pkgs: []string{"util/queue"},
		QuickS: 40, ThoroughS: 600, Level: "exploration",
		Rule: "each run: 2-6 producer tasks put <=40 unique messages (tape-chosen priority 0-3, own or shared transaction id) into the real PriorityQueue while one consumer task gets them; the tape picks the policy and every interleaving at each mutex/cond operation. Non-trivial: at least 3 messages and at least one pair of operations of different tasks overlapped in time. Distinct: run digest (all scheduling decisions and put/get events).",
		Assume: []string{"sync.Mutex and sync.Cond are replaced by the simulated primitives of simrt/simsync (Signal wakes a tape-chosen waiter)", "interleavings are explored at synchronisation operations only", "porcupine v1.3.0; histories whose check exceeds 1 s real time are counted as unknown, never reported"},
		Comps:  map[string]string{"util/queue.PriorityQueue": "real", "sync primitives": "simulated (simsync)", "db19 checker": "stub: one consumer task calling Get"},
	},
	"C18": {
		ID: "C18", Harness: "h2alloc", Mode: "C18", Pkgs: []string{"db19/stor"},
		QuickS: 40, ThoroughS: 600, Level: "exploration",
		Rule: "each run: 2-6 allocator tasks perform <=60 Alloc(n) calls on the real Stor over a heap store with tape-chosen chunk size 64-4096, sizes biased to 1, chunk-1, chunk, chunk/2+-1, chunk/4+-1; the tape decides the interleaving at every atomic operation and at the extend lock. Non-trivial: at least 3 allocations succeeded and at least 2 chunks were used (extend ran). Distinct: run digest (scheduling decisions and returned offsets).",
		Assume: []string{"sync/atomic operations are sequentially consistent scheduling points (simatomic); the extend lock is a simulated mutex", "heap store instead of mmap (chunk size is a knob so that chunk boundaries are crossed often)"},
		Comps:  map[string]string{"db19/stor.Stor (Alloc, extend, Data, Size)": "real", "storage implementation": "real heapStor (in-memory chunks)", "sync/atomic, sync.Mutex": "simulated scheduling points"},
	},
	"C01": {
		ID: "C01", Harness: "h3txn", Mode: "C01", Pkgs: dbPkgs,
		QuickS: 60, ThoroughS: 600, Recycle: 400, Level: "exploration",
		Rule: "each run: tape-chosen schema family (A one table with key/index/unique, the unique index sometimes on a lower case column; B composite key + key() table; C parent/child with block / cascade / cascade update foreign key, also composite with zero bytes; D two tables; E self-referencing tree; G header <- middle <- low; H one key with two referrers), 1-6 update clients x 1-5 transactions x 1-8 operations (lookup, forward/backward/partial scan, output, update, delete, think, abort/complete) over a 2-8 value key domain, 0-3 long-lived readers, optional admin client (index creation on a populated table, persist, full check, scratch tables created and dropped), client stalls inside operations, write-through-stale-offset probes, complete-after-abort, the final Persist read back from the store, with MaxAge 3-20 ticks, persist interval 0.3-60 s, btree split 4-100, chunk size 16-128 KB, hash salted per run and degraded to 64/16/6/4/3 bits or to 1-3 bit root slots; the tape decides every interleaving of clients, checker, merger and the 16 workers. Non-trivial: at least 2 commits were published and (some transaction committed after another transaction's commit was published since its snapshot, or at least 4 non-commit states (merges, persists, schema changes) were published). Distinct: run digest. Mix for this property: favours scans and small key domains.",
		Assume: h3assume,
		Comps: map[string]string{"db19 (Database, Check, CheckCo, tran, state, concur incl. 16 workers, meta, index overlay/ixbuf/btree, stor)": "real", "util/queue, util/ranges, util/ordset": "real", "dbms/query admin parser + DoAdmin": "real", "storage": "real heapStor (in memory)", "query engine / interpreter / triggers": "stub: MakeSuTran returns an empty SuTran; no Trigger_ globals", "sync, sync/atomic, channels, select, time, rand, maphash, log": "simulated seams (simrt)"},
	},
	"C02": {
		ID: "C02", Harness: "h3txn", Mode: "C02", Pkgs: dbPkgs,
		QuickS: 60, ThoroughS: 600, Recycle: 400, Level: "exploration",
		Rule: "each run: tape-chosen schema family (A one table with key/index/unique, the unique index sometimes on a lower case column; B composite key + key() table; C parent/child with block / cascade / cascade update foreign key, also composite with zero bytes; D two tables; E self-referencing tree; G header <- middle <- low; H one key with two referrers), 1-6 update clients x 1-5 transactions x 1-8 operations (lookup, forward/backward/partial scan, output, update, delete, think, abort/complete) over a 2-8 value key domain, 0-3 long-lived readers, optional admin client (index creation on a populated table, persist, full check, scratch tables created and dropped), client stalls inside operations, write-through-stale-offset probes, complete-after-abort, the final Persist read back from the store, with MaxAge 3-20 ticks, persist interval 0.3-60 s, btree split 4-100, chunk size 16-128 KB, hash salted per run and degraded to 64/16/6/4/3 bits or to 1-3 bit root slots; the tape decides every interleaving of clients, checker, merger and the 16 workers. Non-trivial: at least 2 commits were published and (some transaction committed after another transaction's commit was published since its snapshot, or at least 4 non-commit states (merges, persists, schema changes) were published). Distinct: run digest. Mix for this property: 1-3 long lived readers.",
		Assume: h3assume,
		Comps: map[string]string{"db19 (Database, Check, CheckCo, tran, state, concur incl. 16 workers, meta, index overlay/ixbuf/btree, stor)": "real", "util/queue, util/ranges, util/ordset": "real", "dbms/query admin parser + DoAdmin": "real", "storage": "real heapStor (in memory)", "query engine / interpreter / triggers": "stub: MakeSuTran returns an empty SuTran; no Trigger_ globals", "sync, sync/atomic, channels, select, time, rand, maphash, log": "simulated seams (simrt)"},
	},
	"C03": {
		ID: "C03", Harness: "h3txn", Mode: "C03", Pkgs: dbPkgs,
		QuickS: 60, ThoroughS: 600, Recycle: 400, Level: "exploration",
		Rule: "each run: tape-chosen schema family (A one table with key/index/unique, the unique index sometimes on a lower case column; B composite key + key() table; C parent/child with block / cascade / cascade update foreign key, also composite with zero bytes; D two tables; E self-referencing tree; G header <- middle <- low; H one key with two referrers), 1-6 update clients x 1-5 transactions x 1-8 operations (lookup, forward/backward/partial scan, output, update, delete, think, abort/complete) over a 2-8 value key domain, 0-3 long-lived readers, optional admin client (index creation on a populated table, persist, full check, scratch tables created and dropped), client stalls inside operations, write-through-stale-offset probes, complete-after-abort, the final Persist read back from the store, with MaxAge 3-20 ticks, persist interval 0.3-60 s, btree split 4-100, chunk size 16-128 KB, hash salted per run and degraded to 64/16/6/4/3 bits or to 1-3 bit root slots; the tape decides every interleaving of clients, checker, merger and the 16 workers. Non-trivial: at least 2 commits were published and (some transaction committed after another transaction's commit was published since its snapshot, or at least 4 non-commit states (merges, persists, schema changes) were published). Distinct: run digest. Mix for this property: more aborts, think times beyond MaxAge.",
		Assume: h3assume,
		Comps: map[string]string{"db19 (Database, Check, CheckCo, tran, state, concur incl. 16 workers, meta, index overlay/ixbuf/btree, stor)": "real", "util/queue, util/ranges, util/ordset": "real", "dbms/query admin parser + DoAdmin": "real", "storage": "real heapStor (in memory)", "query engine / interpreter / triggers": "stub: MakeSuTran returns an empty SuTran; no Trigger_ globals", "sync, sync/atomic, channels, select, time, rand, maphash, log": "simulated seams (simrt)"},
	},
	"C06": {
		ID: "C06", Harness: "h3txn", Mode: "C06", Pkgs: dbPkgs,
		QuickS: 60, ThoroughS: 600, Recycle: 400, Level: "exploration",
		Rule: "each run: tape-chosen schema family (A one table with key/index/unique, the unique index sometimes on a lower case column; B composite key + key() table; C parent/child with block / cascade / cascade update foreign key, also composite with zero bytes; D two tables; E self-referencing tree; G header <- middle <- low; H one key with two referrers), 1-6 update clients x 1-5 transactions x 1-8 operations (lookup, forward/backward/partial scan, output, update, delete, think, abort/complete) over a 2-8 value key domain, 0-3 long-lived readers, optional admin client (index creation on a populated table, persist, full check, scratch tables created and dropped), client stalls inside operations, write-through-stale-offset probes, complete-after-abort, the final Persist read back from the store, with MaxAge 3-20 ticks, persist interval 0.3-60 s, btree split 4-100, chunk size 16-128 KB, hash salted per run and degraded to 64/16/6/4/3 bits or to 1-3 bit root slots; the tape decides every interleaving of clients, checker, merger and the 16 workers. Non-trivial: at least 2 commits were published and (some transaction committed after another transaction's commit was published since its snapshot, or at least 4 non-commit states (merges, persists, schema changes) were published). Distinct: run digest. Mix for this property: three-index tables, index creation, cascades.",
		Assume: h3assume,
		Comps: map[string]string{"db19 (Database, Check, CheckCo, tran, state, concur incl. 16 workers, meta, index overlay/ixbuf/btree, stor)": "real", "util/queue, util/ranges, util/ordset": "real", "dbms/query admin parser + DoAdmin": "real", "storage": "real heapStor (in memory)", "query engine / interpreter / triggers": "stub: MakeSuTran returns an empty SuTran; no Trigger_ globals", "sync, sync/atomic, channels, select, time, rand, maphash, log": "simulated seams (simrt)"},
	},
	"C07": {
		ID: "C07", Harness: "h3txn", Mode: "C07", Pkgs: dbPkgs,
		QuickS: 60, ThoroughS: 600, Recycle: 400, Level: "exploration",
		Rule: "each run: tape-chosen schema family (A one table with key/index/unique, the unique index sometimes on a lower case column; B composite key + key() table; C parent/child with block / cascade / cascade update foreign key, also composite with zero bytes; D two tables; E self-referencing tree; G header <- middle <- low; H one key with two referrers), 1-6 update clients x 1-5 transactions x 1-8 operations (lookup, forward/backward/partial scan, output, update, delete, think, abort/complete) over a 2-8 value key domain, 0-3 long-lived readers, optional admin client (index creation on a populated table, persist, full check, scratch tables created and dropped), client stalls inside operations, write-through-stale-offset probes, complete-after-abort, the final Persist read back from the store, with MaxAge 3-20 ticks, persist interval 0.3-60 s, btree split 4-100, chunk size 16-128 KB, hash salted per run and degraded to 64/16/6/4/3 bits or to 1-3 bit root slots; the tape decides every interleaving of clients, checker, merger and the 16 workers. Non-trivial: at least 2 commits were published and (some transaction committed after another transaction's commit was published since its snapshot, or at least 4 non-commit states (merges, persists, schema changes) were published). Distinct: run digest. Mix for this property: collision mix on key and unique values.",
		Assume: h3assume,
		Comps: map[string]string{"db19 (Database, Check, CheckCo, tran, state, concur incl. 16 workers, meta, index overlay/ixbuf/btree, stor)": "real", "util/queue, util/ranges, util/ordset": "real", "dbms/query admin parser + DoAdmin": "real", "storage": "real heapStor (in memory)", "query engine / interpreter / triggers": "stub: MakeSuTran returns an empty SuTran; no Trigger_ globals", "sync, sync/atomic, channels, select, time, rand, maphash, log": "simulated seams (simrt)"},
	},
	"C08": {
		ID: "C08", Harness: "h3txn", Mode: "C08", Pkgs: dbPkgs,
		QuickS: 90, ThoroughS: 600, Recycle: 400, Level: "exploration",
		Rule: "each run: tape-chosen schema family (A one table with key/index/unique, the unique index sometimes on a lower case column; B composite key + key() table; C parent/child with block / cascade / cascade update foreign key, also composite with zero bytes; D two tables; E self-referencing tree; G header <- middle <- low; H one key with two referrers), 1-6 update clients x 1-5 transactions x 1-8 operations (lookup, forward/backward/partial scan, output, update, delete, think, abort/complete) over a 2-8 value key domain, 0-3 long-lived readers, optional admin client (index creation on a populated table, persist, full check, scratch tables created and dropped), client stalls inside operations, write-through-stale-offset probes, complete-after-abort, the final Persist read back from the store, with MaxAge 3-20 ticks, persist interval 0.3-60 s, btree split 4-100, chunk size 16-128 KB, hash salted per run and degraded to 64/16/6/4/3 bits or to 1-3 bit root slots; the tape decides every interleaving of clients, checker, merger and the 16 workers. Non-trivial: at least 2 commits were published and (some transaction committed after another transaction's commit was published since its snapshot, or at least 4 non-commit states (merges, persists, schema changes) were published). Distinct: run digest. Mix for this property: parent/child schemas only.",
		Assume: h3assume,
		Comps: map[string]string{"db19 (Database, Check, CheckCo, tran, state, concur incl. 16 workers, meta, index overlay/ixbuf/btree, stor)": "real", "util/queue, util/ranges, util/ordset": "real", "dbms/query admin parser + DoAdmin": "real", "storage": "real heapStor (in memory)", "query engine / interpreter / triggers": "stub: MakeSuTran returns an empty SuTran; no Trigger_ globals", "sync, sync/atomic, channels, select, time, rand, maphash, log": "simulated seams (simrt)"},
	},
	"C16": {
		ID: "C16", Harness: "h3txn", Mode: "C16", Pkgs: dbPkgs,
		QuickS: 60, ThoroughS: 600, Recycle: 400, Level: "exploration",
		Rule: "each run: tape-chosen schema family (A one table with key/index/unique, the unique index sometimes on a lower case column; B composite key + key() table; C parent/child with block / cascade / cascade update foreign key, also composite with zero bytes; D two tables; E self-referencing tree; G header <- middle <- low; H one key with two referrers), 1-6 update clients x 1-5 transactions x 1-8 operations (lookup, forward/backward/partial scan, output, update, delete, think, abort/complete) over a 2-8 value key domain, 0-3 long-lived readers, optional admin client (index creation on a populated table, persist, full check, scratch tables created and dropped), client stalls inside operations, write-through-stale-offset probes, complete-after-abort, the final Persist read back from the store, with MaxAge 3-20 ticks, persist interval 0.3-60 s, btree split 4-100, chunk size 16-128 KB, hash salted per run and degraded to 64/16/6/4/3 bits or to 1-3 bit root slots; the tape decides every interleaving of clients, checker, merger and the 16 workers. Non-trivial: at least 2 commits were published and (some transaction committed after another transaction's commit was published since its snapshot, or at least 4 non-commit states (merges, persists, schema changes) were published). Distinct: run digest. Mix for this property: tiny commits, persist interval <= 2 s, admin operations.",
		Assume: h3assume,
		Comps: map[string]string{"db19 (Database, Check, CheckCo, tran, state, concur incl. 16 workers, meta, index overlay/ixbuf/btree, stor)": "real", "util/queue, util/ranges, util/ordset": "real", "dbms/query admin parser + DoAdmin": "real", "storage": "real heapStor (in memory)", "query engine / interpreter / triggers": "stub: MakeSuTran returns an empty SuTran; no Trigger_ globals", "sync, sync/atomic, channels, select, time, rand, maphash, log": "simulated seams (simrt)"},
	},
	"C34": {
		ID: "C34", Harness: "h5ts", Mode: "C34", Pkgs: []string{"db19", "core"},
		QuickS: 40, ThoroughS: 600, Recycle: 2000, Level: "exploration",
		Rule: "each run: the bubble clock starts at a tape-chosen millisecond; the real server ticker, the real client expiry task, 1-4 goroutines sharing the client side batching (core.Thread.Timestamp) and 0-3 direct callers of db19.Timestamp each take 1-40 (sometimes 200-700) timestamps with think times of 0 ms - 30 s; 0-2 clock jumps of up to +-1 h; the tape decides every interleaving at the two locks and every time advance. Non-trivial: at least 5 timestamps and at least 2 callers. Distinct: run digest.",
		Assume: []string{"one client process per run (the batching state is process global); other clients are modelled as direct callers of the server function", "the client reaches the server through a stub IDbms whose Timestamp calls db19.Timestamp (the protocol is H6's subject)"},
		Comps:  map[string]string{"db19.Timestamp / ticker / StartTimestamps": "real", "core.Thread.Timestamp / tsExpire": "real", "core.SuDate / SuTimestamp arithmetic and comparison": "real", "client-server transport": "stub: IDbms.Timestamp calls db19.Timestamp directly", "clock": "simulated (bubble clock + injected skew)"},
	},
	"C04": {
		ID: "C04", SetConst: h4const, Harness: "h4dura", Mode: "C04", Pkgs: dbPkgs,
		QuickS: 60, ThoroughS: 600, Recycle: 60, Level: "exploration",
		Rule: "each run: a generated history of 5-40 operations on a real memory mapped database file in a scratch directory: admin requests (create / ensure / alter create|drop|rename / rename / view / drop, valid and invalid, with foreign keys incl. self references and requests that must be refused), sequential transactions (insert / update / delete incl. cascades and large records), explicit persists, think times up to 70 s (ticker persists, chain flattening), clean restarts; knobs: persist interval 0.3-60 s, btree split 4-100, hash degraded to 64/16/6 bits, 1-4 workers; the tape decides every interleaving of the driver task with checker, merger, workers, tickers and the storage flusher. Oracle: full snapshot (schema text, columns, indexes, foreign key links both ways, views, info entries, rows through every index with offsets, counts) before every clean close equals the snapshot after reopen; rows equal the model. Non-trivial: at least 2 states were persisted and at least one table exists at the end. Distinct: run digest.",
		Assume: h4assume,
		Comps: map[string]string{"db19 incl. stor.MmapStor on a real file, repair, checkdb": "real", "db19/tools (dump, load, compact)": "real", "dbms/query admin parser + DoAdmin": "real", "client concurrency": "one sequential driver task (background pipeline tasks are concurrent)", "query engine / interpreter / triggers": "stub: MakeSuTran returns an empty SuTran", "sync, atomics, channels, select, time, rand, maphash, log": "simulated seams (simrt)"},
	},
	"C21": {
		ID: "C21", SetConst: h4const, Harness: "h4dura", Mode: "C21", Pkgs: dbPkgs,
		QuickS: 60, ThoroughS: 600, Recycle: 60, Level: "exploration",
		Rule: "each run: a generated history of 5-40 operations on a real memory mapped database file in a scratch directory: admin requests (create / ensure / alter create|drop|rename / rename / view / drop, valid and invalid, with foreign keys incl. self references and requests that must be refused), sequential transactions (insert / update / delete incl. cascades and large records), explicit persists, think times up to 70 s (ticker persists, chain flattening), clean restarts; knobs: persist interval 0.3-60 s, btree split 4-100, hash degraded to 64/16/6 bits, 1-4 workers; the tape decides every interleaving of the driver task with checker, merger, workers, tickers and the storage flusher. Oracle after every admin request: refused => snapshot unchanged; succeeded => must-fail rules not violated, every table has a key, index columns exist, Fk/FkToHere mutually consistent with correct index numbers, schema and info tables agree, rows through every index equal the model, schema text re-parses; differential check across restart. Non-trivial: at least 2 states were persisted and at least one table exists at the end. Distinct: run digest.",
		Assume: h4assume,
		Comps: map[string]string{"db19 incl. stor.MmapStor on a real file, repair, checkdb": "real", "db19/tools (dump, load, compact)": "real", "dbms/query admin parser + DoAdmin": "real", "client concurrency": "one sequential driver task (background pipeline tasks are concurrent)", "query engine / interpreter / triggers": "stub: MakeSuTran returns an empty SuTran", "sync, atomics, channels, select, time, rand, maphash, log": "simulated seams (simrt)"},
	},
	"C19": {
		ID: "C19", SetConst: h4const, Harness: "h4dura", Mode: "C19", Pkgs: dbPkgs,
		QuickS: 60, ThoroughS: 600, Recycle: 60, Level: "exploration",
		Rule: "each run: a generated history of 5-40 operations on a real memory mapped database file in a scratch directory: admin requests (create / ensure / alter create|drop|rename / rename / view / drop, valid and invalid, with foreign keys incl. self references and requests that must be refused), sequential transactions (insert / update / delete incl. cascades and large records), explicit persists, think times up to 70 s (ticker persists, chain flattening), clean restarts; knobs: persist interval 0.3-60 s, btree split 4-100, hash degraded to 64/16/6 bits, 1-4 workers; the tape decides every interleaving of the driver task with checker, merger, workers, tickers and the storage flusher. Oracle: stepping with Asof(-1) from the current state visits exactly the persisted states in reverse order with non-decreasing times inside their observed bounds and the contents persisted at each; Asof(t) for tape-chosen t lands on max{i: t_i <= t} (or the first state); live and after reopen. Non-trivial: at least 2 states were persisted and at least one table exists at the end. Distinct: run digest.",
		Assume: h4assume,
		Comps: map[string]string{"db19 incl. stor.MmapStor on a real file, repair, checkdb": "real", "db19/tools (dump, load, compact)": "real", "dbms/query admin parser + DoAdmin": "real", "client concurrency": "one sequential driver task (background pipeline tasks are concurrent)", "query engine / interpreter / triggers": "stub: MakeSuTran returns an empty SuTran", "sync, atomics, channels, select, time, rand, maphash, log": "simulated seams (simrt)"},
	},
	"C20": {
		ID: "C20", SetConst: h4const, Harness: "h4dura", Mode: "C20", Pkgs: dbPkgs,
		QuickS: 60, ThoroughS: 600, Recycle: 60, Level: "exploration",
		Rule: "each run: a generated history of 5-40 operations on a real memory mapped database file in a scratch directory: admin requests (create / ensure / alter create|drop|rename / rename / view / drop, valid and invalid, with foreign keys incl. self references and requests that must be refused), sequential transactions (insert / update / delete incl. cascades and large records), explicit persists, think times up to 70 s (ticker persists, chain flattening), clean restarts; knobs: persist interval 0.3-60 s, btree split 4-100, hash degraded to 64/16/6 bits, 1-4 workers; the tape decides every interleaving of the driver task with checker, merger, workers, tickers and the storage flusher. Oracle at the end of the history: DumpDatabase+LoadDatabase, Compact (on a copy) and DumpTable+LoadTable each yield a database that opens, passes the full check and has the same tables, columns, indexes, foreign keys, views and rows as the original. Non-trivial: at least 2 states were persisted and at least one table exists at the end. Distinct: run digest.",
		Assume: h4assume,
		Comps: map[string]string{"db19 incl. stor.MmapStor on a real file, repair, checkdb": "real", "db19/tools (dump, load, compact)": "real", "dbms/query admin parser + DoAdmin": "real", "client concurrency": "one sequential driver task (background pipeline tasks are concurrent)", "query engine / interpreter / triggers": "stub: MakeSuTran returns an empty SuTran", "sync, atomics, channels, select, time, rand, maphash, log": "simulated seams (simrt)"},
	},
	"C05": {
		ID: "C05", SetConst: h4const, Harness: "h4dura", Mode: "C05", Pkgs: dbPkgs,
		QuickS: 90, ThoroughS: 600, Recycle: 60, Level: "fault_enumeration",
		Rule: "each run: a generated history of 5-40 operations on a real memory mapped database file in a scratch directory: admin requests (create / ensure / alter create|drop|rename / rename / view / drop, valid and invalid, with foreign keys incl. self references and requests that must be refused), sequential transactions (insert / update / delete incl. cascades and large records), explicit persists, think times up to 70 s (ticker persists, chain flattening), clean restarts; knobs: persist interval 0.3-60 s, btree split 4-100, hash degraded to 64/16/6 bits, 1-4 workers; the tape decides every interleaving of the driver task with checker, merger, workers, tickers and the storage flusher. Oracle: 1-3 crash images (file bytes [0,Size()) at tape-chosen scheduler steps) plus the cleanly closed file, each truncated at structural offsets +-1, bytes inside the last state records and markers, and tape-chosen offsets, with the tail absent / zero filled / garbage (<=150 damaged files per run): open must return an error (or open a clean earlier file to that close's contents), check and repair must return without panicking; if a completely written state record lies below the truncation point repair must succeed, the result must open, pass the full check and hold exactly the contents persisted with the newest such record; otherwise repair must fail. Non-trivial: at least 2 states were persisted and at least one table exists at the end. Distinct: run digest.",
		Assume: h4assume,
		Comps: map[string]string{"db19 incl. stor.MmapStor on a real file, repair, checkdb": "real", "db19/tools (dump, load, compact)": "real", "dbms/query admin parser + DoAdmin": "real", "client concurrency": "one sequential driver task (background pipeline tasks are concurrent)", "query engine / interpreter / triggers": "stub: MakeSuTran returns an empty SuTran", "sync, atomics, channels, select, time, rand, maphash, log": "simulated seams (simrt)"},
	},
	"H4ALL": {
		ID: "H4ALL", SetConst: h4const, Harness: "h4dura", Mode: "ALL", Pkgs: dbPkgs,
		QuickS: 60, ThoroughS: 600, Recycle: 40, Level: "exploration",
		Rule: "development: all H4 oracles", Assume: h4assume,
	},
	"C40": {
		ID: "C40", Harness: "h6net", Mode: "C40", Pkgs: dbPkgs,
		QuickS: 60, ThoroughS: 600, Recycle: 150, Level: "exploration",
		Rule: "each run: two identical databases; 1-4 sessions on one simulated connection each run a generated program of 3-25 operations (begin read/update transaction, query with sort / where / project, get next/prev, output incl. records up to 900 KB, update, erase, insert/update/delete statements, get-one in four directions, complete/abort, admin requests on the session's own table, think) through the real client, TLS, mux and server, and the same program directly on a DbmsLocal of the twin; the transport fragments writes, shortens reads and delays delivery by tape choices; the tape decides every interleaving of sessions, mux reader, workers and both database pipelines. Non-trivial: at least one session ran. Distinct: run digest.",
		Assume: h6assume,
		Comps:  h6comps,
	},
	"C41": {
		ID: "C41", Harness: "h6net", Mode: "C41", Pkgs: dbPkgs,
		QuickS: 60, ThoroughS: 600, Recycle: 150, Level: "exploration",
		Rule: "each run: a database with a users table; one connection authenticates properly (nonce + password hash), obtains 0-2 tokens and keeps reading; 1-3 unauthenticated connections each send 5-60 generated requests: nonce, allowed requests, authentication attempts (wrong password, right password over own fresh / used / expired nonce, over another connection's nonce, made up token, token handed to the authenticated party, empty), every typed request (Admin, Check, Connections, Cursor, Cursors, Exec, Final, Get, Info, Kill, Log, Run, Size, Timestamp, Token, Transaction, Transactions) and raw transaction / query / cursor commands with ids 0-3; think times up to 150 s so that nonces and tokens expire. Non-trivial: at least 3 requests had to be refused. Distinct: run digest.",
		Assume: h6assume,
		Comps:  h6comps,
	},
	"H6ALL": {
		ID: "H6ALL", Harness: "h6net", Mode: "ALL", Pkgs: dbPkgs,
		QuickS: 60, ThoroughS: 600, Recycle: 150, Level: "exploration",
		Rule: "development: all H6 oracles", Assume: h6assume,
	},
	"C43": {
		ID: "C43", Harness: "h7obj", Mode: "C43", Pkgs: []string{"core"},
		StmtYield: "core/suobject.go,core/surecord.go",
		QuickS: 40, ThoroughS: 600, Recycle: 5000, Level: "exploration",
		Rule: "each run: one container - a SuObject, a SuRecord built member by member, or a SuRecord that still reads from its database row (0-3 list and 0-2 named members) - made concurrent and shared by 2-4 threads that each perform 1-6 (copy-on-write runs: 1-9) single-call operations (add, put, get, delete, erase, size, list/named size, has, find, pop first/last, insert, copy, slice; on private copies: put, add, delete, check) with keys 0-8 (records: members f0-f4 and 5-8) and values 0-3; a scheduling point precedes every statement of core/suobject.go and core/surecord.go and every lock operation. Non-trivial: at least 3 operations. Distinct: run digest.",
		Assume: []string{"decides only what is visible at sequentially consistent granularity: no Go run-time error, linearizable results of single-call operations (incl. taking a copy and the final contents) and private copies that stay private; it cannot see data races in the Go memory model sense (tasks are serialised) - that half of the property needs the race detector on real parallel executions", "the sequential specification is the same SuObject / SuRecord code run single-threaded (sequential semantics are C36's subject); a row-backed record is specified by the record with the same members", "records are used without rules and observers (no interpreter thread); closures and classes are not covered"},
		Comps:  map[string]string{"core.SuObject and core.SuRecord methods and locking (rwMayLock), copy-on-write": "real, with a yield before every statement", "sync.Mutex / RWMutex": "simulated (simsync)", "interpreter / threads": "stub: harness tasks call the methods directly"},
	},
	"H3ALL": {
		ID: "H3ALL", Harness: "h3txn", Mode: "ALL", Pkgs: dbPkgs,
		QuickS: 60, ThoroughS: 600, Recycle: 400, Level: "exploration",
		Rule: "development: all H3 oracles", Assume: h3assume,
	},
}

var h3assume = []string{
	"interleavings are explored at synchronisation operations (mutex, atomics, channels, select, timers), not below",
	"the reference model (maps of rows with the documented key / unique / foreign key rules) is trusted; index keys are computed with gSuneido's own ixkey.Spec.Key",
	"heap store (no mmap file) in this harness; no query engine or interpreter (triggers find no Trigger_ global)",
}

var h4assume = []string{
	"the page cache model of a crash: the file content at a scheduler step, then truncated; power-loss images (only msync'ed pages survive) are out of scope",
	"transactions are sequential in this harness (concurrency between clients is H3's subject); rows are modelled from the operations the implementation accepted",
	"interleavings at synchronisation operations only; real file system calls (ftruncate, mmap, msync, rename) are executed for real",
}

var h6assume = []string{
	"TCP is replaced by an in-bubble byte pipe (simnet) with short reads / fragmented writes / delays; resets and message duplication or reordering are not injected (a reset ends the client process by design)",
	"the client half of the hello exchange and TLS upgrade is a copy of ConnectClient's code after dialing (hook VerifConnectClient)",
	"Exec / Run / Schema need the interpreter's builtins and are not exercised in the differential programs",
}

var h6comps = map[string]string{
	"dbms server: newServerConn (hello, TLS, unauthorized wrapper), doRequest, all cmd handlers, background expiry": "real",
	"dbms/mux: reader, write, WriteBuf/ReadBuf, Workers incl. killer": "real",
	"dbms client: NewDbmsClient, sessions, transactions, queries": "real",
	"dbms.DbmsLocal, dbms/query engine, db19 (heap store)": "real",
	"crypto/tls": "real (Ed25519 throw-away certificate from the overlay)",
	"TCP": "stub: simnet in-memory pipe with tape-driven fragmentation and delay",
	"golang.org/x/time/rate": "simrate: same token bucket, waits under the scheduler",
}
