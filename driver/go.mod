module verifdriver

go 1.26
