// Command check is the driver of every registered check:
//
//	check <property> <quick|thorough> [-seed N] [-seconds S] [-workers W]
//	check <property> -replay file
//	check selftest <property>          determinism self-test of the property's harness
//
// It rebuilds the instrumented harness from /repo's current working tree, runs seeded
// simulations in parallel worker processes, minimises and reports failures, and writes
// /verif/evidence/<property>.json. Exit status: 0 property held on everything explored,
// 1 violation (with a VIOLATION line), 2 machinery trouble (build failure, watchdog,
// nondeterministic replay) - never reported as a violation.
package main

import (
	"bufio"
	"encoding/json"
	"flag"
	"fmt"
	"os"
	"os/exec"
	"path/filepath"
	"sort"
	"strconv"
	"strings"
	"sync"
	"time"
)

const verifDir = "/verif"

type propDef struct {
	ID        string
	Harness   string   // package dir under /verif/sim
	Mode      string   // VERIF_MODE
	Pkgs      []string // root packages for the instrumenter
	StmtYield string
	SetConst  string
	QuickS    int
	ThoroughS int
	Recycle   int // runs per worker process (0 = unlimited)
	Level     string
	Rule      string
	Assume    []string
	Comps     map[string]string
}

type workerMsg struct {
	Type      string           `json:"type"`
	Seed      uint64           `json:"seed"`
	Oracle    string           `json:"oracle"`
	Sig       string           `json:"sig"`
	Message   string           `json:"message"`
	Replay    string           `json:"replay"`
	Machine   bool             `json:"machine"`
	Digest    string           `json:"digest"`
	Runs      int64            `json:"runs"`
	Nontriv   int64            `json:"nontrivial"`
	Steps     int64            `json:"steps"`
	Switches  int64            `json:"switches"`
	SimNanos  int64            `json:"sim_ns"`
	Stats     map[string]int64 `json:"stats"`
	Sigs      []string         `json:"sigs"`
	Samples   []any            `json:"samples"`
	Policies  map[string]int64 `json:"policies"`
	WallS     float64          `json:"wall_s"`
	FirstSeed uint64           `json:"first_seed"`
	LastSeed  uint64           `json:"last_seed"`
}

type replayFile struct {
	Property  string              `json:"property"`
	Harness   string              `json:"harness"`
	Mode      string              `json:"mode"`
	Oracle    string              `json:"oracle"`
	Signature string              `json:"signature"`
	Message   string              `json:"message"`
	Seed      uint64              `json:"seed"`
	Tier      string              `json:"tier"`
	Minimised bool                `json:"minimised"`
	Streams   map[string][]uint64 `json:"streams"`
	Trace     []string            `json:"trace,omitempty"`
}

type knownFindings struct {
	Findings []struct {
		Property  string `json:"property"`
		Signature string `json:"signature"`
		What      string `json:"what"`
	} `json:"findings"`
	Fixed []struct {
		Property string `json:"property"`
		Commit   string `json:"commit"`
		What     string `json:"what"`
	} `json:"fixed"`
}

func goEnv() []string {
	env := os.Environ()
	env = append(env, "GOFLAGS=-mod=mod", "GOPROXY=off", "GOSUMDB=off", "GOTOOLCHAIN=local", "GOWORK=off",
		"PATH=/opt/veriftools/go1.26.8/bin:"+os.Getenv("PATH"))
	return env
}

func fatal2(format string, args ...any) {
	fmt.Fprintf(os.Stderr, "check: "+format+"\n", args...)
	os.Exit(2)
}

func main() {
	if len(os.Args) < 2 {
		fatal2("usage: check <property> <quick|thorough> | check <property> -replay file | check selftest <property>")
	}
	if os.Args[1] == "selftest" {
		if len(os.Args) < 3 {
			fatal2("usage: check selftest <property>")
		}
		os.Exit(selftest(os.Args[2], os.Args[3:]))
	}
	id := os.Args[1]
	p, ok := props[id]
	if !ok {
		fatal2("unknown property %q", id)
	}
	fs := flag.NewFlagSet("check", flag.ExitOnError)
	seedFlag := fs.Uint64("seed", 0, "base seed (default VERIF_SEED or 1)")
	seconds := fs.Int("seconds", 0, "search budget in seconds")
	workers := fs.Int("workers", 16, "worker processes")
	replay := fs.String("replay", "", "replay file")
	noMin := fs.Bool("nomin", false, "do not minimise")
	tier := "quick"
	args := os.Args[2:]
	if len(args) > 0 && !strings.HasPrefix(args[0], "-") {
		tier = args[0]
		args = args[1:]
	}
	fs.Parse(args)
	if t := os.Getenv("VERIF_TIER"); t != "" && len(os.Args) <= 2 {
		tier = t
	}
	if tier != "quick" && tier != "thorough" {
		fatal2("tier must be quick or thorough")
	}
	seed := *seedFlag
	if seed == 0 {
		if v := os.Getenv("VERIF_SEED"); v != "" {
			n, err := strconv.ParseUint(v, 10, 64)
			if err != nil {
				n2, err2 := strconv.ParseInt(v, 10, 64)
				if err2 != nil {
					fatal2("bad VERIF_SEED %q", v)
				}
				n = uint64(n2)
			}
			seed = n
		}
	}
	if seed == 0 {
		seed = 1
	}
	start := time.Now()
	b := build(p)
	defer b.cleanup()
	if *replay != "" {
		code := doReplay(p, b, *replay)
		b.cleanup()
		os.Exit(code)
	}
	budget := p.QuickS
	if tier == "thorough" {
		budget = p.ThoroughS
	}
	if *seconds > 0 {
		budget = *seconds
	}
	code := search(p, b, tier, seed, budget, *workers, start, !*noMin)
	b.cleanup()
	os.Exit(code)
}

// ---------------------------------------------------------------------------------------
// build

type built struct {
	dir  string
	bin  string
	inst map[string]any
}

func (b *built) cleanup() {
	if b.dir != "" && os.Getenv("VERIF_KEEP") == "" {
		os.RemoveAll(b.dir)
	}
}

// removeStale deletes build directories left behind by checks that were killed.
func removeStale() {
	ents, _ := os.ReadDir(filepath.Join(verifDir, ".gen"))
	for _, e := range ents {
		pid, err := strconv.Atoi(e.Name())
		if err != nil {
			continue
		}
		if _, err := os.Stat(fmt.Sprintf("/proc/%d", pid)); err != nil {
			os.RemoveAll(filepath.Join(verifDir, ".gen", e.Name()))
		}
	}
}

func build(p propDef) *built {
	removeStale()
	dir := filepath.Join(verifDir, ".gen", strconv.Itoa(os.Getpid()))
	os.RemoveAll(dir)
	if err := os.MkdirAll(dir, 0o755); err != nil {
		fatal2("%v", err)
	}
	b := &built{dir: dir, bin: filepath.Join(dir, "h.test")}
	instr := filepath.Join(verifDir, "bin", "instr")
	if _, err := os.Stat(instr); err != nil {
		fatal2("%s missing: run the setup command (make -C /verif setup)", instr)
	}
	args := []string{"-repo", "/repo", "-out", dir}
	if p.StmtYield != "" {
		args = append(args, "-stmtyield", p.StmtYield)
	}
	if p.SetConst != "" {
		args = append(args, "-setconst", p.SetConst)
	}
	if pf := os.Getenv("VERIF_PATCH"); pf != "" {
		// a change under test: the patched copies of the files it touches replace /repo's
		// files for this build only; /repo itself is not modified
		io, err := patchedFiles(pf, filepath.Join(dir, "patched"))
		if err != nil {
			fatal2("VERIF_PATCH: %v", err)
		}
		args = append(args, "-inoverlay", io)
	}
	args = append(args, p.Pkgs...)
	cmd := exec.Command(instr, args...)
	cmd.Env = goEnv()
	out, err := cmd.CombinedOutput()
	if err != nil {
		b.cleanup()
		fatal2("instrumenter failed (the tree may not compile):\n%s", out)
	}
	if sb, err := os.ReadFile(filepath.Join(dir, "instr-stats.json")); err == nil {
		json.Unmarshal(sb, &b.inst)
	}
	cmd = exec.Command("/opt/veriftools/go1.26.8/bin/go", "test", "-c", "-tags", "verif", "-overlay", filepath.Join(dir, "overlay.json"),
		"-o", b.bin, "./"+p.Harness)
	cmd.Dir = filepath.Join(verifDir, "sim")
	cmd.Env = goEnv()
	out, err = cmd.CombinedOutput()
	if err != nil {
		b.cleanup()
		fatal2("harness build failed:\n%s", out)
	}
	return b
}

// ---------------------------------------------------------------------------------------
// running workers

type runOpts struct {
	first, stride uint64
	count         int
	seconds       int
	replay        string
	digests       bool
	cont          bool
	tier          string
	maxprocs      int
}

func runWorker(p propDef, b *built, o runOpts) (msgs []workerMsg, output string, err error) {
	cmd := exec.Command(b.bin, "-test.run", "^TestSim$", "-test.timeout", "0", "-test.count", "1")
	env := append(goEnv(),
		"VERIF_MODE="+p.Mode, "VERIF_PROPERTY="+p.ID, "VERIF_REPLAYDIR="+filepath.Join(verifDir, "replay"),
		"VERIF_TIER="+o.tier,
		"VERIF_FIRST="+strconv.FormatUint(o.first, 10), "VERIF_STRIDE="+strconv.FormatUint(o.stride, 10),
		"VERIF_COUNT="+strconv.Itoa(o.count), "VERIF_SECONDS="+strconv.Itoa(o.seconds))
	if o.replay != "" {
		env = append(env, "VERIF_REPLAY="+o.replay)
	}
	if o.digests {
		env = append(env, "VERIF_DIGESTS=1")
	}
	if o.cont {
		env = append(env, "VERIF_CONTINUE=1")
	}
	if o.maxprocs > 0 {
		env = append(env, "GOMAXPROCS="+strconv.Itoa(o.maxprocs))
	}
	cmd.Env = env
	cmd.Dir = b.dir
	stdout, _ := cmd.StdoutPipe()
	var errBuf strings.Builder
	cmd.Stderr = &errBuf
	if os.Getenv("VERIF_STDERR") != "" { // debugging aid
		cmd.Stderr = os.Stderr
	}
	if err = cmd.Start(); err != nil {
		return nil, "", err
	}
	// watchdog: a worker that runs far beyond its budget is killed (machinery trouble)
	limit := time.Duration(o.seconds+120) * time.Second
	if o.replay != "" {
		limit = 180 * time.Second
	}
	killed := false
	timer := time.AfterFunc(limit, func() { killed = true; cmd.Process.Kill() })
	var other strings.Builder
	sc := bufio.NewScanner(stdout)
	sc.Buffer(make([]byte, 1<<20), 1<<28)
	for sc.Scan() {
		line := sc.Text()
		if strings.HasPrefix(line, "@@") {
			var m workerMsg
			if e := json.Unmarshal([]byte(line[2:]), &m); e == nil {
				msgs = append(msgs, m)
				continue
			}
		}
		if other.Len() < 1<<16 {
			other.WriteString(line + "\n")
		}
	}
	err = cmd.Wait()
	timer.Stop()
	output = other.String() + errBuf.String()
	if killed {
		err = fmt.Errorf("watchdog: worker killed after %v", limit)
	}
	return msgs, output, err
}

// ---------------------------------------------------------------------------------------
// search

type failure struct {
	msg workerMsg
}

func loadKnown() knownFindings {
	var kf knownFindings
	b, err := os.ReadFile(filepath.Join(verifDir, "known_findings.json"))
	if err == nil {
		if e := json.Unmarshal(b, &kf); e != nil {
			fatal2("known_findings.json: %v", e)
		}
	}
	return kf
}

func search(p propDef, b *built, tier string, seed uint64, budget, workers int, start time.Time, minimise bool) int {
	os.MkdirAll(filepath.Join(verifDir, "replay"), 0o755)
	os.MkdirAll(filepath.Join(verifDir, "evidence"), 0o755)
	kf := loadKnown()
	known := map[string]string{}
	for _, f := range kf.Findings {
		if f.Property == p.ID {
			known[f.Signature] = f.What
		}
	}
	base := seed * 1_000_003
	deadline := time.Now().Add(time.Duration(budget) * time.Second)
	var mu sync.Mutex
	var all []workerMsg
	var fails []workerMsg
	var trouble []string
	stop := false
	var wg sync.WaitGroup
	for w := 0; w < workers; w++ {
		wg.Add(1)
		go func(w int) {
			defer wg.Done()
			round := 0
			for {
				mu.Lock()
				st := stop
				mu.Unlock()
				remain := int(time.Until(deadline).Seconds())
				if st || remain <= 0 {
					return
				}
				count := p.Recycle
				first := base + uint64(w)
				if count > 0 {
					first += uint64(round) * uint64(count) * uint64(workers)
				}
				msgs, out, err := runWorker(p, b, runOpts{first: first, stride: uint64(workers), count: count,
					seconds: remain, cont: true, tier: tier})
				mu.Lock()
				gotStats := false
				for _, m := range msgs {
					switch m.Type {
					case "stats":
						gotStats = true
						all = append(all, m)
					case "fail":
						fails = append(fails, m)
						if _, ok := known[m.Sig]; !ok {
							stop = true
						}
					}
				}
				if err != nil || !gotStats {
					trouble = append(trouble, fmt.Sprintf("worker %d (first seed %d, stride %d): %v\n%s", w, first, workers, err, tail(out, 4000)))
					stop = true
				}
				mu.Unlock()
				if count == 0 {
					return
				}
				round++
			}
		}(w)
	}
	wg.Wait()

	// classify failures
	knownHit := map[string]int{}
	var unknown []workerMsg
	machine := false
	for _, f := range fails {
		if f.Machine {
			machine = true
			trouble = append(trouble, fmt.Sprintf("seed %d: %s", f.Seed, f.Message))
			continue
		}
		if _, ok := known[f.Sig]; ok {
			knownHit[f.Sig]++
			continue
		}
		unknown = append(unknown, f)
	}
	sort.Slice(unknown, func(i, j int) bool { return unknown[i].Seed < unknown[j].Seed })

	violations := 0
	var reported []string
	if len(unknown) > 0 && !machine {
		// report one violation per distinct signature (at most 3)
		seen := map[string]bool{}
		for _, f := range unknown {
			if seen[f.Sig] || len(seen) >= 3 {
				continue
			}
			seen[f.Sig] = true
			path := f.Replay
			if minimise {
				path = minimiseReplay(p, b, f)
			}
			if path == "" {
				trouble = append(trouble, fmt.Sprintf("seed %d (%s) did not reproduce in a fresh process: nondeterministic replay", f.Seed, f.Oracle))
				machine = true
				continue
			}
			violations++
			reported = append(reported, path)
			fmt.Printf("VIOLATION property=%s replay=%s\n", p.ID, path)
			fmt.Printf("  oracle=%s seed=%d\n  %s\n", f.Oracle, f.Seed, indent(firstN(f.Message, 3000)))
		}
	}
	for sig, n := range knownHit {
		fmt.Printf("KNOWN-FINDING: property=%s %s (signature %s, hit %d times)\n", p.ID, known[sig], sig, n)
	}
	// listed findings are always printed, even when this run's seeds did not reach them
	for sig, what := range known {
		if knownHit[sig] == 0 {
			fmt.Printf("KNOWN-FINDING: property=%s %s (signature %s, not reached by this run's seeds)\n", p.ID, what, sig)
		}
	}
	writeEvidence(p, b, tier, seed, all, knownHit, violations, time.Since(start), workers, trouble)
	if len(trouble) > 0 {
		for _, t := range trouble {
			fmt.Fprintln(os.Stderr, "check: machinery trouble:", t)
		}
		if violations == 0 {
			return 2
		}
	}
	if violations > 0 {
		return 1
	}
	fmt.Printf("OK property=%s tier=%s\n", p.ID, tier)
	return 0
}

func tail(s string, n int) string {
	if len(s) > n {
		return "..." + s[len(s)-n:]
	}
	return s
}

func firstN(s string, n int) string {
	if len(s) > n {
		return s[:n] + "..."
	}
	return s
}

func indent(s string) string { return strings.ReplaceAll(s, "\n", "\n  ") }

// ---------------------------------------------------------------------------------------
// evidence

func writeEvidence(p propDef, b *built, tier string, seed uint64, all []workerMsg, knownHit map[string]int,
	violations int, wall time.Duration, workers int, trouble []string) {
	var runs, nontriv, steps, switches, simns int64
	stats := map[string]int64{}
	policies := map[string]int64{}
	distinct := map[string]bool{}
	var samples []any
	for _, m := range all {
		runs += m.Runs
		nontriv += m.Nontriv
		steps += m.Steps
		switches += m.Switches
		simns += m.SimNanos
		for k, v := range m.Stats {
			stats[k] += v
		}
		for k, v := range m.Policies {
			policies[k] += v
		}
		for _, s := range m.Sigs {
			distinct[s] = true
		}
		if len(samples) < 3 {
			for _, s := range m.Samples {
				if len(samples) < 3 {
					samples = append(samples, s)
				}
			}
		}
	}
	faults := map[string]int64{}
	probes := map[string]int64{}
	for k, v := range stats {
		if strings.HasPrefix(k, "fault.") {
			faults[strings.TrimPrefix(k, "fault.")] = v
		} else {
			probes[k] = v
		}
	}
	if samples == nil {
		samples = []any{}
	}
	ws := wall.Seconds()
	perHour := 0.0
	if ws > 0 {
		perHour = float64(runs) / ws * 3600
	}
	kh := []string{}
	for k, n := range knownHit {
		kh = append(kh, fmt.Sprintf("%s x%d", k, n))
	}
	sort.Strings(kh)
	ev := map[string]any{
		"property_id": p.ID,
		"tier":        tier,
		"seed":        int64(seed & 0x7fffffffffffffff),
		"level":       p.Level,
		"wall_s":      ws,
		"violations":  violations,
		"assumptions": p.Assume,
		"coverage": map[string]any{
			"evaluations":                   runs,
			"distinct_nontrivial":           len(distinct),
			"rule":                          p.Rule,
			"samples":                       samples,
			"nontrivial_runs":               nontriv,
			"runs_per_hour":                 int64(perHour),
			"seeds":                         fmt.Sprintf("base %d*1000003 + k, k=0.. (one seed per run, %d worker processes)", seed, workers),
			"scheduler_steps":               steps,
			"scheduling_decisions":          switches,
			"simulated_time_s":              float64(simns) / 1e9,
			"fault_kinds_fired":             faults,
			"probes":                        probes,
			"policies":                      policies,
			"components":                    p.Comps,
			"instrumentation":               b.inst,
			"known_findings_hit":            kh,
			"machinery_trouble":             trouble,
			"harness":                       p.Harness,
			"mode":                          p.Mode,
			"distinct_measure":              "distinct run digests (hash of every scheduling decision (task, step) and every harness-level event) among non-trivial runs",
			"exhaustive":                    false,
		},
	}
	out, _ := json.MarshalIndent(ev, "", " ")
	path := filepath.Join(verifDir, "evidence", p.ID+".json")
	if os.Getenv("VERIF_PATCH") != "" {
		// a run against a patched tree says nothing about /repo: keep it out of evidence/
		os.MkdirAll("/tmp/verif-evidence-patched", 0o755)
		path = filepath.Join("/tmp/verif-evidence-patched", p.ID+".json")
	}
	if err := os.WriteFile(path, out, 0o644); err != nil {
		fmt.Fprintln(os.Stderr, "check: cannot write evidence:", err)
	}
}

// ---------------------------------------------------------------------------------------
// replay and minimisation

// replayTier is the tier a replay file was recorded in: the tier changes the harness's
// knobs, so a replay has to run in the same one.
func replayTier(path string) string {
	if r, err := readReplay(path); err == nil && r.Tier == "thorough" {
		return "thorough"
	}
	return "quick"
}

func doReplay(p propDef, b *built, path string) int {
	abs, _ := filepath.Abs(path)
	msgs, out, err := runWorker(p, b, runOpts{replay: abs, tier: replayTier(abs)})
	for _, m := range msgs {
		if m.Type == "fail" {
			if m.Machine {
				fmt.Fprintln(os.Stderr, "check: machinery trouble:", m.Message)
				return 2
			}
			fmt.Printf("VIOLATION property=%s replay=%s\n  oracle=%s seed=%d\n  %s\n", p.ID, path, m.Oracle, m.Seed, indent(firstN(m.Message, 6000)))
			return 1
		}
		if m.Type == "run" {
			fmt.Printf("OK property=%s replay=%s did not fail (digest %s)\n", p.ID, path, m.Digest)
			return 0
		}
	}
	fmt.Fprintf(os.Stderr, "check: replay produced no result: %v\n%s\n", err, tail(out, 4000))
	return 2
}

func readReplay(path string) (*replayFile, error) {
	b, err := os.ReadFile(path)
	if err != nil {
		return nil, err
	}
	var r replayFile
	if err := json.Unmarshal(b, &r); err != nil {
		return nil, err
	}
	return &r, nil
}

func writeReplay(path string, r *replayFile) {
	b, _ := json.Marshal(r)
	os.WriteFile(path, b, 0o644)
}

// tryReplay runs one candidate and reports whether the same oracle fires.
func tryReplay(p propDef, b *built, path, oracle string) (same bool, msg string) {
	msgs, _, _ := runWorker(p, b, runOpts{replay: path, tier: replayTier(path)})
	for _, m := range msgs {
		if m.Type == "fail" && !m.Machine && m.Oracle == oracle {
			return true, m.Message
		}
	}
	return false, ""
}

// minimiseReplay shrinks the recorded tape while the same oracle fires, verifies the
// result twice in fresh processes and returns the path of the file to report ("" if even
// the original seed does not reproduce).
func minimiseReplay(p propDef, b *built, f workerMsg) string {
	orig, err := readReplay(f.Replay)
	if err != nil {
		return f.Replay
	}
	// the recorded tape must reproduce in a fresh process
	if ok, _ := tryReplay(p, b, f.Replay, f.Oracle); !ok {
		return ""
	}
	cur := orig
	deadline := time.Now().Add(90 * time.Second)
	tried := 0
	tmpN := 0
	test := func(cands []*replayFile) int {
		// run candidates in parallel, return the index of the first that still fails
		res := make([]bool, len(cands))
		var wg sync.WaitGroup
		for i, c := range cands {
			tmpN++
			path := filepath.Join(b.dir, fmt.Sprintf("cand%d.json", tmpN))
			writeReplay(path, c)
			wg.Add(1)
			go func(i int, path string) {
				defer wg.Done()
				res[i], _ = tryReplay(p, b, path, f.Oracle)
				os.Remove(path)
			}(i, path)
		}
		wg.Wait()
		tried += len(cands)
		for i, ok := range res {
			if ok {
				return i
			}
		}
		return -1
	}
	clone := func(r *replayFile) *replayFile {
		c := *r
		c.Streams = map[string][]uint64{}
		for k, v := range r.Streams {
			c.Streams[k] = append([]uint64(nil), v...)
		}
		c.Trace = nil
		return &c
	}
	names := []string{}
	for n := range cur.Streams {
		names = append(names, n)
	}
	sort.Slice(names, func(i, j int) bool {
		// generator stream first: removing operations shortens everything else
		pi, pj := names[i] != "gen", names[j] != "gen"
		if pi != pj {
			return !pi
		}
		return names[i] < names[j]
	})
	improved := true
	for pass := 0; improved && pass < 4 && time.Now().Before(deadline) && tried < 600; pass++ {
		improved = false
		for _, name := range names {
			// 1. truncate
			for time.Now().Before(deadline) {
				n := len(cur.Streams[name])
				if n == 0 {
					break
				}
				var cands []*replayFile
				for _, keep := range []int{0, n / 8, n / 4, n / 2, n * 3 / 4, n * 7 / 8, n - 1} {
					if keep < n && keep >= 0 {
						c := clone(cur)
						c.Streams[name] = c.Streams[name][:keep]
						cands = append(cands, c)
					}
				}
				i := test(cands)
				if i < 0 {
					break
				}
				cur = cands[i]
				improved = true
			}
			// 2. delete and zero chunks
			for _, kind := range []string{"delete", "zero"} {
				for size := len(cur.Streams[name]) / 2; size >= 1 && time.Now().Before(deadline) && tried < 600; size /= 2 {
					for startAt := 0; startAt < len(cur.Streams[name]) && time.Now().Before(deadline) && tried < 600; {
						var cands []*replayFile
						var offs []int
						for k := 0; k < 16 && startAt+k*size < len(cur.Streams[name]); k++ {
							off := startAt + k*size
							end := off + size
							if end > len(cur.Streams[name]) {
								end = len(cur.Streams[name])
							}
							c := clone(cur)
							s := c.Streams[name]
							if kind == "delete" {
								c.Streams[name] = append(s[:off:off], s[end:]...)
							} else {
								allZero := true
								for j := off; j < end; j++ {
									if s[j] != 0 {
										allZero = false
									}
									s[j] = 0
								}
								if allZero {
									continue
								}
							}
							cands = append(cands, c)
							offs = append(offs, off)
						}
						if len(cands) == 0 {
							startAt += 16 * size
							continue
						}
						i := test(cands)
						if i < 0 {
							startAt += 16 * size
							continue
						}
						cur = cands[i]
						improved = true
						if kind == "zero" {
							startAt = offs[i] + size
						} else {
							startAt = offs[i]
						}
					}
					if size == 1 {
						break
					}
				}
			}
		}
	}
	cur.Minimised = true
	out := strings.TrimSuffix(f.Replay, ".json") + "-min.json"
	// replay the minimised file twice in fresh processes
	writeReplay(out, cur)
	ok1, msg := tryReplay(p, b, out, f.Oracle)
	ok2, _ := tryReplay(p, b, out, f.Oracle)
	if ok1 && ok2 {
		cur.Message = msg
		writeReplay(out, cur)
		return out
	}
	os.Remove(out)
	return f.Replay
}

// ---------------------------------------------------------------------------------------
// determinism self-test

func selftest(id string, args []string) int {
	p, ok := props[id]
	if !ok {
		fatal2("unknown property %q", id)
	}
	fs := flag.NewFlagSet("selftest", flag.ExitOnError)
	nseeds := fs.Int("seeds", 40, "seeds")
	procs := fs.Int("procs", 30, "processes")
	fs.Parse(args)
	b := build(p)
	defer b.cleanup()
	type key struct{ seed uint64 }
	var mu sync.Mutex
	digests := map[uint64]map[string]int{}
	var wg sync.WaitGroup
	sem := make(chan struct{}, 16)
	bad := false
	for pr := 0; pr < *procs; pr++ {
		wg.Add(1)
		sem <- struct{}{}
		go func(pr int) {
			defer wg.Done()
			defer func() { <-sem }()
			mp := []int{1, 4, 16}[pr%3]
			// different processes run the seeds in different orders / subsets so that state
			// leaked from one run to the next shows up as a digest difference
			first := uint64(1000 + (pr%4)*(*nseeds/4))
			stride := uint64(1)
			if pr%2 == 1 {
				stride = 3
			}
			msgs, out, err := runWorker(p, b, runOpts{first: first, stride: stride, count: *nseeds, seconds: 600,
				digests: true, cont: true, tier: "quick", maxprocs: mp})
			mu.Lock()
			defer mu.Unlock()
			if err != nil {
				fmt.Fprintf(os.Stderr, "selftest: worker %d: %v\n%s\n", pr, err, tail(out, 2000))
				bad = true
			}
			for _, m := range msgs {
				if m.Type == "run" {
					if digests[m.Seed] == nil {
						digests[m.Seed] = map[string]int{}
					}
					digests[m.Seed][fmt.Sprintf("%s/%d", m.Digest, m.Steps)]++
				}
			}
		}(pr)
	}
	wg.Wait()
	nd := 0
	total := 0
	for seed, ds := range digests {
		n := 0
		for _, c := range ds {
			n += c
		}
		total += n
		if len(ds) > 1 {
			nd++
			fmt.Printf("NONDETERMINISTIC seed=%d digests=%v\n", seed, ds)
		}
	}
	fmt.Printf("selftest %s: %d seeds, %d executions in %d processes (GOMAXPROCS 1/4/16, two seed orders), %d nondeterministic seeds\n",
		id, len(digests), total, *procs, nd)
	if nd > 0 || bad {
		return 2
	}
	return 0
}

// patchedFiles copies the files a patch touches from /repo to dir, applies the patch there
// and returns the -inoverlay argument for the instrumenter.
func patchedFiles(patch, dir string) (string, error) {
	data, err := os.ReadFile(patch)
	if err != nil {
		return "", err
	}
	var files []string
	for _, ln := range strings.Split(string(data), "\n") {
		if strings.HasPrefix(ln, "+++ b/") {
			files = append(files, strings.TrimSpace(strings.TrimPrefix(ln, "+++ b/")))
		}
	}
	if len(files) == 0 {
		return "", fmt.Errorf("no files in %s", patch)
	}
	var parts []string
	for _, f := range files {
		src, err := os.ReadFile(filepath.Join("/repo", f))
		if err != nil {
			return "", err
		}
		dst := filepath.Join(dir, f)
		if err := os.MkdirAll(filepath.Dir(dst), 0o755); err != nil {
			return "", err
		}
		if err := os.WriteFile(dst, src, 0o644); err != nil {
			return "", err
		}
		parts = append(parts, f+"="+dst)
	}
	abs, _ := filepath.Abs(patch)
	cmd := exec.Command("patch", "-p1", "-s", "-d", dir, "-i", abs)
	if out, err := cmd.CombinedOutput(); err != nil {
		return "", fmt.Errorf("patch does not apply: %v %s", err, out)
	}
	return strings.Join(parts, ","), nil
}
