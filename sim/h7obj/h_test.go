// H7 objsim: a shared SuObject used from several threads, with a scheduling point before
// every statement of core/suobject.go (property C43, limited - see DESIGN.md).
package h7obj

import (
	"fmt"
	"sort"
	"strconv"
	"strings"
	"sync/atomic"
	"testing"
	"time"

	"github.com/anishathalye/porcupine"
	"github.com/apmckinlay/gsuneido/core"

	"verifsim/hkit"
	"verifsim/simrt"
	"verifsim/simrt/simsync"
)

type opIn struct {
	Kind string
	K, V int
}

type event struct {
	client   int
	in       opIn
	out      string
	call, rt int64
}

func TestSim(t *testing.T) {
	hkit.Main(t, hkit.Harness{
		Name: "h7obj",
		Config: func(mode string) simrt.Config {
			c := simrt.DefaultConfig()
			c.MaxSteps, c.FairSteps = 200_000, 200_000
			c.NoTimeFaults = true
			return c
		},
		Main:       run,
		After:      after,
		WarmupRuns: 2,
	})
}

var kinds = []string{"add", "put", "get", "delete", "erase", "size", "has", "find", "popfirst", "poplast", "listsize", "namedsize", "insert", "copy", "slice", "pput"}

// copyKinds is the mix of the runs that concentrate on copy-on-write: threads take private
// copies of the shared object (copy, slice) and then modify (pput, padd, pdel) or just look at
// (pcheck) their own copy while the others go on modifying the shared one.
var copyKinds = []string{"copy", "copy", "slice", "put", "put", "add", "delete", "pput", "pput", "padd", "pdel", "pcheck", "get"}

func private(kind string) bool {
	return kind == "pput" || kind == "padd" || kind == "pdel" || kind == "pcheck"
}

// What is shared: a plain object, a record built member by member, or a record that still
// reads from the database row it was made from (members are unpacked and cached by reads).
const (
	kObject = iota
	kRecord
	kRowRecord
)

var kindNames = []string{"object", "record", "row-backed record"}

var rowFields = []string{"f0", "f1", "f2", "f3"}

// key maps the small integer of an operation to a member: records are mostly used through
// their named (string) members, which take the record-specific paths.
func key(ckind, k int) core.Value {
	if ckind != kObject && k < 5 {
		return core.SuStr("f" + strconv.Itoa(k))
	}
	return core.SuInt(k)
}

// size is a single call on every kind of container (for records, which have no Size of
// their own, the number of named members: adding up two calls would not be one operation).
func size(c core.Container) int {
	if ob, ok := c.(*core.SuObject); ok {
		return ob.Size()
	}
	return c.NamedSize()
}

// apply performs one operation on a container and renders the result; Suneido level
// exceptions are results, Go run-time errors are reported separately.
func apply(c core.Container, ckind int, in opIn) (out string, crash string) {
	defer func() {
		if e := recover(); e != nil {
			if re, ok := e.(interface{ RuntimeError() }); ok {
				_ = re
				crash = fmt.Sprint(e)
				return
			}
			out = "throws: " + fmt.Sprint(e)
		}
	}()
	k, v := key(ckind, in.K), core.SuInt(in.V)
	str := func(x core.Value) string {
		if x == nil {
			return "nil"
		}
		return x.String()
	}
	switch in.Kind {
	case "add", "padd":
		c.Add(v)
		return "ok", ""
	case "put", "pput":
		switch c := c.(type) {
		case *core.SuObject:
			c.Put(nil, k, v)
		case *core.SuRecord:
			c.Put(nil, k, v)
		}
		return "ok", ""
	case "get":
		return str(c.GetIfPresent(nil, k)), ""
	case "delete", "pdel":
		return fmt.Sprint(c.Delete(nil, k)), ""
	case "erase":
		return fmt.Sprint(c.Erase(nil, k)), ""
	case "size":
		return fmt.Sprint(size(c)), ""
	case "listsize":
		return fmt.Sprint(c.ListSize()), ""
	case "namedsize":
		return fmt.Sprint(c.NamedSize()), ""
	case "has":
		return fmt.Sprint(c.HasKey(k)), ""
	case "find":
		if ob, ok := c.(*core.SuObject); ok {
			return str(ob.Find(v)), ""
		}
		return str(c.GetIfPresent(nil, k)), ""
	case "popfirst":
		if ob, ok := c.(*core.SuObject); ok {
			return str(ob.PopFirst()), ""
		}
		return fmt.Sprint(c.HasKey(k)), ""
	case "poplast":
		if ob, ok := c.(*core.SuObject); ok {
			return str(ob.PopLast()), ""
		}
		return fmt.Sprint(c.NamedSize()), ""
	case "insert":
		c.Insert(in.K, v)
		return "ok", ""
	case "copy":
		return encode(c.Copy()), ""
	case "slice":
		return encode(c.Slice(in.K % 3)), ""
	case "pcheck":
		return "ok", ""
	}
	return "?", ""
}

// takeCopy performs copy or slice on the shared container and keeps the copy.
func takeCopy(c core.Container, in opIn) (cp core.Container, out string, crash string) {
	defer func() {
		if e := recover(); e != nil {
			if _, ok := e.(interface{ RuntimeError() }); ok {
				crash = fmt.Sprint(e)
				return
			}
			out = "throws: " + fmt.Sprint(e)
		}
	}()
	if in.Kind == "slice" {
		cp = c.Slice(in.K % 3)
	} else {
		cp = c.Copy()
	}
	return cp, encode(cp), ""
}

// encode renders the contents of a container canonically. (On a row-backed record this
// unpacks the row, so it is only used on copies, twins and at the end.)
func encode(c core.Container) string {
	var sb strings.Builder
	n := c.ListSize()
	for i := 0; i < n; i++ {
		sb.WriteString(c.ListGet(i).String())
		sb.WriteByte(',')
	}
	sb.WriteByte('|')
	var named []string
	it := c.Iter2(false, true)
	for k, v := it(); k != nil; k, v = it() {
		ks := ""
		if s, ok := k.(core.SuStr); ok {
			ks = string(s)
		} else {
			ks = k.String()
		}
		named = append(named, ks+":"+v.String())
	}
	sort.Strings(named)
	sb.WriteString(strings.Join(named, ","))
	return sb.String()
}

// decode builds a private container of the given kind with the encoded contents (a record
// is built member by member: the model never reads from a row).
func decode(ckind int, s string) core.Container {
	var c core.Container = &core.SuObject{}
	var rec *core.SuRecord
	if ckind != kObject {
		rec = core.NewSuRecord()
		c = rec
	}
	parts := strings.SplitN(s, "|", 2)
	for _, x := range strings.Split(parts[0], ",") {
		if x != "" {
			n, _ := strconv.Atoi(x)
			c.Add(core.SuInt(n))
		}
	}
	if len(parts) > 1 {
		for _, kv := range strings.Split(parts[1], ",") {
			if kv == "" {
				continue
			}
			p := strings.SplitN(kv, ":", 2)
			var k core.Value
			if n, err := strconv.Atoi(p[0]); err == nil {
				k = core.SuInt(n)
			} else {
				k = core.SuStr(p[0])
			}
			v, _ := strconv.Atoi(p[1])
			if rec != nil {
				rec.Set(k, core.SuInt(v))
			} else {
				c.(*core.SuObject).Set(k, core.SuInt(v))
			}
		}
	}
	return c
}

// build makes the shared container from the generated initial contents.
func build(ckind int, list []int, named map[int]int) core.Container {
	switch ckind {
	case kObject:
		ob := &core.SuObject{}
		for _, v := range list {
			ob.Add(core.SuInt(v))
		}
		for _, k := range sortedKeys(named) {
			ob.Set(core.SuInt(k), core.SuInt(named[k]))
		}
		return ob
	case kRecord:
		r := core.NewSuRecord()
		for _, v := range list {
			r.Add(core.SuInt(v))
		}
		for _, k := range sortedKeys(named) {
			r.Set(key(ckind, k), core.SuInt(named[k]))
		}
		return r
	}
	// a record over a database row with the fields f0..f3 (some of them empty); nothing
	// is unpacked yet
	var rb core.RecordBuilder
	for i := range rowFields {
		if v, ok := named[i]; ok {
			rb.Add(core.SuInt(v))
		} else {
			rb.AddRaw("")
		}
	}
	row := core.Row{core.DbRec{Record: rb.Build()}}
	hdr := core.NewHeader([][]string{rowFields}, rowFields)
	r := core.SuRecordFromRow(row, hdr, "", nil)
	for _, v := range list {
		r.Add(core.SuInt(v))
	}
	return r
}

func sortedKeys(m map[int]int) []int {
	var ks []int
	for k := range m {
		ks = append(ks, k)
	}
	sort.Ints(ks)
	return ks
}

func run(s *simrt.Sim, mode string, ri *hkit.RunInfo) {
	g := s.Tape.Stream("gen")
	ckind := g.Pick(2, 1, 1)
	var list []int
	named := map[int]int{}
	for i := g.Choose(4); i > 0; i-- {
		list = append(list, g.Choose(4))
	}
	for i := g.Choose(3); i > 0; i-- {
		if ckind == kRowRecord {
			named[g.Choose(4)] = g.Choose(4)
		} else {
			named[g.Choose(9)] = g.Choose(4)
		}
	}
	ob := build(ckind, list, named)
	initial := encode(build(ckind, list, named)) // from a twin: encoding unpacks a row
	ob.SetConcurrent()
	nthreads := g.Range(2, 4)
	mix, maxOps := kinds, 6
	if g.Choose(2) == 0 {
		mix, maxOps = copyKinds, 9
		if g.Choose(2) == 0 {
			// a shared container that has been copied and modified before
			ob.Copy()
			v := g.Choose(4)
			ob.Add(core.SuInt(v))
			tw := decode(ckind, initial)
			tw.Add(core.SuInt(v))
			initial = encode(tw)
		}
	}
	var plans [][]opIn
	total := 0
	for t := 0; t < nthreads; t++ {
		n := g.Range(1, maxOps)
		var ops []opIn
		for i := 0; i < n; i++ {
			ops = append(ops, opIn{Kind: mix[g.Choose(len(mix))], K: g.Choose(9), V: g.Choose(4)})
		}
		total += n
		plans = append(plans, ops)
	}
	var seq int64
	var events []event
	var wg simsync.WaitGroup
	for t := range plans {
		t := t
		wg.Add(1)
		s.GoNamed(fmt.Sprintf("thread%d", t), func() {
			defer wg.Done()
			// this thread's private copy of the shared object, and what it has to contain
			var priv, privModel core.Container
			intact := func(when string) bool {
				if priv == nil {
					return true
				}
				if got, want := encode(priv), encode(privModel); got != want {
					s.Fail("C43/copy-aliased", "", "thread %d: its private copy of the shared object, which only it uses, contains %q %s but should contain %q: another thread's modification leaked into it", t, got, when, want)
					return false
				}
				return true
			}
			defer func() {
				if !s.Over() {
					intact("at the end of the run")
				}
			}()
			for _, in := range plans[t] {
				if s.Over() {
					return
				}
				if private(in.Kind) && priv == nil {
					in.Kind = "copy"
				}
				if private(in.Kind) {
					if !intact(fmt.Sprintf("before its %s(%d,%d)", in.Kind, in.K, in.V)) {
						return
					}
					out, crash := apply(priv, ckind, in)
					want, _ := apply(privModel, ckind, in)
					if crash != "" {
						s.Fail("C43/crash", "", "thread %d: %s(%d,%d) on its private copy raised a Go run-time error: %s", t, in.Kind, in.K, in.V, crash)
						return
					}
					if out != want {
						s.Fail("C43/copy-aliased", "", "thread %d: %s(%d,%d) on its private copy returned %q, should have returned %q", t, in.Kind, in.K, in.V, out, want)
						return
					}
					if !intact(fmt.Sprintf("after its %s(%d,%d)", in.Kind, in.K, in.V)) {
						return
					}
					s.Note("t%d %s(%d,%d)=%s", t, in.Kind, in.K, in.V, out)
					continue
				}
				seq++
				c := seq
				var out, crash string
				if in.Kind == "copy" || in.Kind == "slice" {
					if !intact("when it was replaced") {
						return
					}
					priv, out, crash = takeCopy(ob, in)
					if crash == "" && priv != nil {
						privModel = decode(ckind, out)
					}
				} else {
					out, crash = apply(ob, ckind, in)
				}
				seq++
				if crash != "" {
					s.Fail("C43/crash", "", "thread %d: %s(%d,%d) on a shared %s raised a Go run-time error: %s", t, in.Kind, in.K, in.V, kindNames[ckind], crash)
					return
				}
				events = append(events, event{client: t, in: in, out: out, call: c, rt: seq})
				s.Note("t%d %s(%d,%d)=%s", t, in.Kind, in.K, in.V, out)
			}
		})
	}
	wg.Wait()
	if s.Over() {
		return
	}
	final := encode(ob)
	ri.History = hist{ckind: ckind, initial: initial, events: events, final: final}
	ri.Count("operations", int64(total))
	ri.Nontrivial = total >= 3
	var sample []string
	for _, e := range events {
		sample = append(sample, fmt.Sprintf("[%d,%d] t%d %s(%d,%d)=%s", e.call, e.rt, e.client, e.in.Kind, e.in.K, e.in.V, e.out))
	}
	ri.Sample = map[string]any{"initial": initial, "history": sample, "final": final, "kind": kindNames[ckind], "policy": s.PolicyName()}
}

type hist struct {
	ckind   int
	initial string
	events  []event
	final   string
}

func after(mode string, ri *hkit.RunInfo) *simrt.Failure {
	h, ok := ri.History.(hist)
	if !ok {
		return nil
	}
	// the checker's goroutines may outlive a timed out check; they must not touch the
	// instrumented code once the next simulation has started
	var inflight, dead atomic.Int32
	model := porcupine.Model{
		Init: func() any { return h.initial },
		Step: func(state, input, output any) (bool, any) {
			inflight.Add(1)
			defer inflight.Add(-1)
			if dead.Load() != 0 {
				return false, state
			}
			ob := decode(h.ckind, state.(string))
			in := input.(opIn)
			if in.Kind == "final" {
				return encode(ob) == output.(string), state
			}
			if in.Kind == "find" && h.ckind == kObject {
				// which of several members holding the value is found is not specified
				// (it depends on the hash map's internal order): accept any of them
				got := output.(string)
				var keys []string
				it := ob.Iter2(true, true)
				for k, v := it(); k != nil; k, v = it() {
					if v.Equal(core.SuInt(in.V)) {
						keys = append(keys, k.String())
					}
				}
				if len(keys) > 0 {
					for _, k := range keys {
						if k == got {
							return true, state
						}
					}
					return false, state
				}
			}
			out, crash := apply(ob, h.ckind, in)
			if crash != "" {
				out = "crash: " + crash
			}
			return out == output.(string), encode(ob)
		},
	}
	ops := make([]porcupine.Operation, 0, len(h.events)+1)
	var last int64
	for _, e := range h.events {
		ops = append(ops, porcupine.Operation{ClientId: e.client, Input: e.in, Call: e.call, Output: e.out, Return: e.rt})
		if e.rt > last {
			last = e.rt
		}
	}
	// the final contents must be the result of the linearization too
	ops = append(ops, porcupine.Operation{ClientId: 99, Input: opIn{Kind: "final"}, Call: last + 1, Output: h.final, Return: last + 2})
	verdict := porcupine.CheckOperationsTimeout(model, ops, 2*time.Second)
	dead.Store(1)
	for inflight.Load() != 0 {
		time.Sleep(100 * time.Microsecond)
	}
	switch verdict {
	case porcupine.Illegal:
		var sb strings.Builder
		for _, e := range h.events {
			fmt.Fprintf(&sb, "[%d,%d] t%d %s(%d,%d)=%s; ", e.call, e.rt, e.client, e.in.Kind, e.in.K, e.in.V, e.out)
		}
		return &simrt.Failure{Oracle: "C43/not-linearizable", Sig: "C43/not-linearizable",
			Message: fmt.Sprintf("operations on a shared %s are not linearizable: initial %q history %s final %q", kindNames[h.ckind], h.initial, sb.String(), h.final)}
	case porcupine.Unknown:
		ri.Count("porcupine.unknown", 1)
	default:
		ri.Count("porcupine.ok", 1)
	}
	return nil
}
