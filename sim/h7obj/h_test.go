// H7 objsim: a shared SuObject used from several threads, with a scheduling point before
// every statement of core/suobject.go (property C43, limited - see DESIGN.md).
package h7obj

import (
	"fmt"
	"sort"
	"strconv"
	"strings"
	"testing"
	"time"

	"github.com/anishathalye/porcupine"
	"github.com/apmckinlay/gsuneido/core"

	"verifsim/hkit"
	"verifsim/simrt"
	"verifsim/simrt/simsync"
)

type opIn struct {
	Kind string
	K, V int
}

type event struct {
	client   int
	in       opIn
	out      string
	call, rt int64
}

func TestSim(t *testing.T) {
	hkit.Main(t, hkit.Harness{
		Name: "h7obj",
		Config: func(mode string) simrt.Config {
			c := simrt.DefaultConfig()
			c.MaxSteps, c.FairSteps = 200_000, 200_000
			c.NoTimeFaults = true
			return c
		},
		Main:       run,
		After:      after,
		WarmupRuns: 2,
	})
}

var kinds = []string{"add", "put", "get", "delete", "erase", "size", "has", "find", "popfirst", "poplast", "listsize", "namedsize", "insert", "copy", "slice", "pput"}

// copyKinds is the mix of the runs that concentrate on copy-on-write: threads take private
// copies of the shared object (copy, slice) and then modify (pput, padd, pdel) or just look at
// (pcheck) their own copy while the others go on modifying the shared one.
var copyKinds = []string{"copy", "copy", "slice", "put", "put", "add", "delete", "pput", "pput", "padd", "pdel", "pcheck", "get"}

func private(kind string) bool {
	return kind == "pput" || kind == "padd" || kind == "pdel" || kind == "pcheck"
}

// apply performs one operation on an object and renders the result; Suneido level
// exceptions are results, Go run-time errors are reported separately.
func apply(ob *core.SuObject, in opIn) (out string, crash string) {
	defer func() {
		if e := recover(); e != nil {
			if re, ok := e.(interface{ RuntimeError() }); ok {
				_ = re
				crash = fmt.Sprint(e)
				return
			}
			out = "throws: " + fmt.Sprint(e)
		}
	}()
	k, v := core.SuInt(in.K), core.SuInt(in.V)
	switch in.Kind {
	case "add":
		ob.Add(v)
		return "ok", ""
	case "put":
		ob.Put(nil, k, v)
		return "ok", ""
	case "get":
		x := ob.GetIfPresent(nil, k)
		if x == nil {
			return "nil", ""
		}
		return x.String(), ""
	case "delete":
		return fmt.Sprint(ob.Delete(nil, k)), ""
	case "erase":
		return fmt.Sprint(ob.Erase(nil, k)), ""
	case "size":
		return fmt.Sprint(ob.Size()), ""
	case "listsize":
		return fmt.Sprint(ob.ListSize()), ""
	case "namedsize":
		return fmt.Sprint(ob.NamedSize()), ""
	case "has":
		return fmt.Sprint(ob.HasKey(k)), ""
	case "find":
		x := ob.Find(v)
		if x == nil {
			return "nil", ""
		}
		return x.String(), ""
	case "popfirst":
		x := ob.PopFirst()
		if x == nil {
			return "nil", ""
		}
		return x.String(), ""
	case "poplast":
		x := ob.PopLast()
		if x == nil {
			return "nil", ""
		}
		return x.String(), ""
	case "insert":
		ob.Insert(in.K, v)
		return "ok", ""
	case "copy":
		return encode(ob.Clone()), ""
	case "slice":
		return encode(ob.Slice(in.K % 3).(*core.SuObject)), ""
	case "pput":
		ob.Put(nil, k, v)
		return "ok", ""
	case "padd":
		ob.Add(v)
		return "ok", ""
	case "pdel":
		return fmt.Sprint(ob.Delete(nil, k)), ""
	case "pcheck":
		return "ok", ""
	}
	return "?", ""
}

// takeCopy performs copy or slice on the shared object and keeps the copy.
func takeCopy(ob *core.SuObject, in opIn) (cp *core.SuObject, out string, crash string) {
	defer func() {
		if e := recover(); e != nil {
			if _, ok := e.(interface{ RuntimeError() }); ok {
				crash = fmt.Sprint(e)
				return
			}
			out = "throws: " + fmt.Sprint(e)
		}
	}()
	if in.Kind == "slice" {
		cp = ob.Slice(in.K % 3).(*core.SuObject)
	} else {
		cp = ob.Clone()
	}
	return cp, encode(cp), ""
}

// encode renders the contents of an object canonically.
func encode(ob *core.SuObject) string {
	var sb strings.Builder
	n := ob.ListSize()
	for i := 0; i < n; i++ {
		sb.WriteString(ob.ListGet(i).String())
		sb.WriteByte(',')
	}
	sb.WriteByte('|')
	var named []string
	it := ob.Iter2(false, true)
	for k, v := it(); k != nil; k, v = it() {
		named = append(named, k.String()+":"+v.String())
	}
	sort.Strings(named)
	sb.WriteString(strings.Join(named, ","))
	return sb.String()
}

func decode(s string) *core.SuObject {
	ob := &core.SuObject{}
	parts := strings.SplitN(s, "|", 2)
	for _, x := range strings.Split(parts[0], ",") {
		if x != "" {
			n, _ := strconv.Atoi(x)
			ob.Add(core.SuInt(n))
		}
	}
	if len(parts) > 1 {
		for _, kv := range strings.Split(parts[1], ",") {
			if kv == "" {
				continue
			}
			p := strings.SplitN(kv, ":", 2)
			k, _ := strconv.Atoi(p[0])
			v, _ := strconv.Atoi(p[1])
			ob.Set(core.SuInt(k), core.SuInt(v))
		}
	}
	return ob
}

func run(s *simrt.Sim, mode string, ri *hkit.RunInfo) {
	g := s.Tape.Stream("gen")
	ob := &core.SuObject{}
	for i := g.Choose(4); i > 0; i-- {
		ob.Add(core.SuInt(g.Choose(4)))
	}
	for i := g.Choose(3); i > 0; i-- {
		ob.Set(core.SuInt(5+g.Choose(4)), core.SuInt(g.Choose(4)))
	}
	initial := encode(ob)
	ob.SetConcurrent()
	nthreads := g.Range(2, 4)
	mix, maxOps := kinds, 6
	if g.Choose(2) == 0 {
		mix, maxOps = copyKinds, 9
		if g.Choose(2) == 0 {
			// a shared object that has been copied and modified before
			ob.Clone()
			ob.Add(core.SuInt(g.Choose(4)))
			initial = encode(ob)
		}
	}
	var plans [][]opIn
	total := 0
	for t := 0; t < nthreads; t++ {
		n := g.Range(1, maxOps)
		var ops []opIn
		for i := 0; i < n; i++ {
			ops = append(ops, opIn{Kind: mix[g.Choose(len(mix))], K: g.Choose(9), V: g.Choose(4)})
		}
		total += n
		plans = append(plans, ops)
	}
	var seq int64
	var events []event
	var wg simsync.WaitGroup
	for t := range plans {
		t := t
		wg.Add(1)
		s.GoNamed(fmt.Sprintf("thread%d", t), func() {
			defer wg.Done()
			// this thread's private copy of the shared object, and what it has to contain
			var priv, privModel *core.SuObject
			intact := func(when string) bool {
				if priv == nil {
					return true
				}
				if got, want := encode(priv), encode(privModel); got != want {
					s.Fail("C43/copy-aliased", "", "thread %d: its private copy of the shared object, which only it uses, contains %q %s but should contain %q: another thread's modification leaked into it", t, got, when, want)
					return false
				}
				return true
			}
			defer func() {
				if !s.Over() {
					intact("at the end of the run")
				}
			}()
			for _, in := range plans[t] {
				if s.Over() {
					return
				}
				if private(in.Kind) && priv == nil {
					in.Kind = "copy"
				}
				if private(in.Kind) {
					if !intact(fmt.Sprintf("before its %s(%d,%d)", in.Kind, in.K, in.V)) {
						return
					}
					out, crash := apply(priv, in)
					want, _ := apply(privModel, in)
					if crash != "" {
						s.Fail("C43/crash", "", "thread %d: %s(%d,%d) on its private copy raised a Go run-time error: %s", t, in.Kind, in.K, in.V, crash)
						return
					}
					if out != want {
						s.Fail("C43/copy-aliased", "", "thread %d: %s(%d,%d) on its private copy returned %q, should have returned %q", t, in.Kind, in.K, in.V, out, want)
						return
					}
					if !intact(fmt.Sprintf("after its %s(%d,%d)", in.Kind, in.K, in.V)) {
						return
					}
					s.Note("t%d %s(%d,%d)=%s", t, in.Kind, in.K, in.V, out)
					continue
				}
				seq++
				c := seq
				var out, crash string
				if in.Kind == "copy" || in.Kind == "slice" {
					if !intact("when it was replaced") {
						return
					}
					priv, out, crash = takeCopy(ob, in)
					if crash == "" && priv != nil {
						privModel = decode(out)
					}
				} else {
					out, crash = apply(ob, in)
				}
				seq++
				if crash != "" {
					s.Fail("C43/crash", "", "thread %d: %s(%d,%d) on a shared object raised a Go run-time error: %s", t, in.Kind, in.K, in.V, crash)
					return
				}
				events = append(events, event{client: t, in: in, out: out, call: c, rt: seq})
				s.Note("t%d %s(%d,%d)=%s", t, in.Kind, in.K, in.V, out)
			}
		})
	}
	wg.Wait()
	if s.Over() {
		return
	}
	ri.History = hist{initial: initial, events: events, final: encode(ob)}
	ri.Count("operations", int64(total))
	ri.Nontrivial = total >= 3
	var sample []string
	for _, e := range events {
		sample = append(sample, fmt.Sprintf("[%d,%d] t%d %s(%d,%d)=%s", e.call, e.rt, e.client, e.in.Kind, e.in.K, e.in.V, e.out))
	}
	ri.Sample = map[string]any{"initial": initial, "history": sample, "final": encode(ob), "policy": s.PolicyName()}
}

type hist struct {
	initial string
	events  []event
	final   string
}

func after(mode string, ri *hkit.RunInfo) *simrt.Failure {
	h, ok := ri.History.(hist)
	if !ok {
		return nil
	}
	model := porcupine.Model{
		Init: func() any { return h.initial },
		Step: func(state, input, output any) (bool, any) {
			ob := decode(state.(string))
			in := input.(opIn)
			if in.Kind == "final" {
				return encode(ob) == output.(string), state
			}
			if in.Kind == "find" {
				// which of several members holding the value is found is not specified
				// (it depends on the hash map's internal order): accept any of them
				got := output.(string)
				var keys []string
				it := ob.Iter2(true, true)
				for k, v := it(); k != nil; k, v = it() {
					if v.Equal(core.SuInt(in.V)) {
						keys = append(keys, k.String())
					}
				}
				if len(keys) > 0 {
					for _, k := range keys {
						if k == got {
							return true, state
						}
					}
					return false, state
				}
			}
			out, crash := apply(ob, in)
			if crash != "" {
				out = "crash: " + crash
			}
			return out == output.(string), encode(ob)
		},
	}
	ops := make([]porcupine.Operation, 0, len(h.events)+1)
	var last int64
	for _, e := range h.events {
		ops = append(ops, porcupine.Operation{ClientId: e.client, Input: e.in, Call: e.call, Output: e.out, Return: e.rt})
		if e.rt > last {
			last = e.rt
		}
	}
	// the final contents must be the result of the linearization too
	ops = append(ops, porcupine.Operation{ClientId: 99, Input: opIn{Kind: "final"}, Call: last + 1, Output: h.final, Return: last + 2})
	switch porcupine.CheckOperationsTimeout(model, ops, 2*time.Second) {
	case porcupine.Illegal:
		var sb strings.Builder
		for _, e := range h.events {
			fmt.Fprintf(&sb, "[%d,%d] t%d %s(%d,%d)=%s; ", e.call, e.rt, e.client, e.in.Kind, e.in.K, e.in.V, e.out)
		}
		return &simrt.Failure{Oracle: "C43/not-linearizable", Sig: "C43/not-linearizable",
			Message: fmt.Sprintf("operations on a shared object are not linearizable: initial %q history %s final %q", h.initial, sb.String(), h.final)}
	case porcupine.Unknown:
		ri.Count("porcupine.unknown", 1)
	default:
		ri.Count("porcupine.ok", 1)
	}
	return nil
}
