// Package h6net is harness H6 (netsim): the real dbms server (hello, TLS upgrade,
// unauthorized wrapper, mux, workers, command handlers, background expiry) and the real
// client (mux client, sessions) over a simulated transport. Properties C40 and C41.
package h6net

import (
	"crypto/sha1"
	"fmt"
	"os"
	"runtime"
	"runtime/debug"
	"sort"
	"strings"
	"time"

	"github.com/apmckinlay/gsuneido/core"
	"github.com/apmckinlay/gsuneido/db19"
	"github.com/apmckinlay/gsuneido/db19/index/iface"
	"github.com/apmckinlay/gsuneido/db19/stor"
	"github.com/apmckinlay/gsuneido/dbms"
	"github.com/apmckinlay/gsuneido/dbms/commands"
	"github.com/apmckinlay/gsuneido/dbms/mux"
	"github.com/apmckinlay/gsuneido/options"

	"verifsim/hkit"
	"verifsim/simnet"
	"verifsim/simrt"
	"verifsim/simrt/simsync"
)

var oracleProps = map[string]string{
	"C40/result-differs":   "C40",
	"C40/contents-differ":  "C40",
	"C40/connect":          "C40 C41",
	"C41/not-refused":      "C41",
	"C41/auth-accepted":    "C41",
	"C41/auth-rejected":    "C41",
	"C41/data-changed":     "C41",
	"C41/session-affected": "C41",
	"task-panic":           "C40 C41",
	"fatal":                "C40 C41",
	"stall":                "C40 C41",
	"machinery":            "*",
}

type harness struct {
	s    *simrt.Sim
	ri   *hkit.RunInfo
	prop string
	g    *simrt.Stream
	log  []string
}

func (h *harness) fail(oracle, sig, format string, args ...any) {
	props := oracleProps[oracle]
	if props == "*" || strings.Contains(props, h.prop) || h.prop == "ALL" {
		if sig == "" {
			sig = oracle
		}
		h.s.Fail(oracle, sig, format+"\nlog:\n  %s", append(args, strings.Join(tailStr(h.log, 80), "\n  "))...)
		return
	}
	h.s.Abandon("other-property-oracle:" + oracle)
}

func tailStr(l []string, n int) []string {
	if len(l) > n {
		return l[len(l)-n:]
	}
	return l
}

func (h *harness) logf(format string, args ...any) {
	h.log = append(h.log, fmt.Sprintf(format, args...))
}

// try runs f and returns the panic text ("" for none).
func try(f func()) (res string) {
	defer func() {
		if e := recover(); e != nil {
			if _, ok := e.(simrt.Fatal); ok {
				panic(e)
			}
			if se, ok := e.(interface{ ToStr() (string, bool) }); ok {
				if s, ok := se.ToStr(); ok {
					res = s
					return
				}
			}
			res = fmt.Sprint(e)
			if res == "" {
				res = "panic"
			}
			if _, ok := e.(runtime.Error); ok && os.Getenv("VERIF_DEBUG_STACK") != "" {
				fmt.Fprintf(os.Stderr, "runtime error: %v\n%s\n", e, debug.Stack())
			}
		}
	}()
	f()
	return ""
}

func pstr(s string) string { return core.PackValue(core.SuStr(s)) }

func mkrec(fields ...string) core.Record {
	var rb core.RecordBuilder
	for _, f := range fields {
		if f == "" {
			rb.AddRaw("")
		} else {
			rb.AddRaw(pstr(f))
		}
	}
	return rb.Trim().Build()
}

// env is one database with its pipeline and local dbms.
type env struct {
	db *db19.Database
	dl *dbms.DbmsLocal
}

func newEnv(chunk int, persist time.Duration) *env {
	db := db19.CreateDb(stor.HeapStor(chunk))
	db19.StartConcur(db, persist)
	return &env{db: db, dl: dbms.NewDbmsLocal(db)}
}

// contents renders the logical contents of a database.
func contents(db *db19.Database) (string, error) {
	var sb strings.Builder
	var err error
	func() {
		defer func() {
			if e := recover(); e != nil {
				err = fmt.Errorf("%v", e)
			}
		}()
		rt := db.NewReadTran()
		var names []string
		for _, ts := range rt.GetAllSchema() {
			names = append(names, ts.Table)
		}
		sort.Strings(names)
		for _, n := range names {
			ts := rt.GetSchema(n)
			fmt.Fprintf(&sb, "%s\n", ts.String())
			it := rt.IndexIter(n, 0)
			it.Range(iface.All)
			var rows []string
			for it.Next(rt); !it.Eof(); it.Next(rt) {
				_, off := it.Cur()
				rec := rt.GetRecord(off)
				var fs []string
				for i := range ts.Columns {
					f := rec.GetRaw(i)
					if len(f) > 40 {
						f = fmt.Sprintf("%s...(%d)", f[:40], len(f))
					}
					fs = append(fs, f)
				}
				rows = append(rows, strings.Join(fs, "|"))
			}
			sort.Strings(rows)
			for _, r := range rows {
				fmt.Fprintf(&sb, "  %q\n", r)
			}
		}
	}()
	return sb.String(), err
}

type clientConn struct {
	newSession func() core.IDbms
	pipe       *simnet.Conn
	faults     *simnet.Faults
}

func (h *harness) dial(srv *env, name string, withFaults bool) *clientConn {
	f := &simnet.Faults{S: h.s, Stream: h.s.Tape.Stream("net-" + name), FragNum: 1, FragDen: 3, DelayNum: 1, DelayDen: 10, MaxDelayMs: 200,
		Count: func(k string) { h.s.Count(k, 1) }}
	cli, sv := simnet.Pipe(f)
	h.s.GoNamed("server-conn-"+name, func() { dbms.VerifNewServerConn(srv.dl, sv) })
	t0 := h.s.Elapsed()
	conn, err := dbms.VerifConnectClient(cli)
	if err != nil {
		if strings.Contains(err.Error(), "timeout") || h.s.Elapsed()-t0 >= 500*time.Millisecond {
			// the hello exchange has a 500 ms deadline on both sides; a stalled peer is
			// refused by design (when it is the server that gives up, the client sees the
			// connection closed during the TLS handshake)
			h.s.Abandon("hello-timeout")
			return nil
		}
		h.fail("C40/connect", "", "connecting %s failed: %v", name, err)
		return nil
	}
	// the transport draws nothing from the tape until the handshake has completed
	f.Enabled = withFaults
	dc := dbms.NewDbmsClient(conn)
	return &clientConn{newSession: func() core.IDbms { return dc.NewSession() }, pipe: cli, faults: f}
}

// ---------------------------------------------------------------------------------------
// C40: differential client-server vs local

type sessOp struct {
	kind  string
	text  string
	dir   core.Dir
	n     int
	rec   core.Record
	big   int
	think time.Duration
}

func (h *harness) genSession(table string, g *simrt.Stream) []sessOp {
	var ops []sessOp
	n := g.Range(3, 25)
	key := 100
	for i := 0; i < n; i++ {
		switch g.Pick(3, 4, 3, 2, 2, 2, 2, 1, 1, 1, 1, 2, 1) {
		case 0:
			ops = append(ops, sessOp{kind: "begin", n: g.Choose(2)})
		case 1:
			qs := []string{table, table + " sort k", table + " sort reverse k", table + " where v is 'v1'", table + " where k > 'k2' sort v", table + " project k,v sort k",
				table + " project k,v,x sort k", table + " remove w", table + " project k,x", table + " remove v,w sort reverse k"}
			q := qs[g.Choose(len(qs))]
			ops = append(ops, sessOp{kind: "query", text: q})
		case 2:
			ops = append(ops, sessOp{kind: "get", dir: []core.Dir{core.Next, core.Next, core.Prev}[g.Choose(3)], n: g.Range(1, 5)})
		case 3:
			key++
			big := 0
			if g.Coin(1, 8) {
				big = 1000 + g.Choose(900_000)
			} else if g.Coin(1, 4) {
				big = g.Choose(5000)
			}
			ops = append(ops, sessOp{kind: "output", rec: mkrec(fmt.Sprintf("k%d", key), fmt.Sprintf("v%d", g.Choose(3)), "", fmt.Sprintf("x%d", g.Choose(3))), big: big})
		case 4:
			ops = append(ops, sessOp{kind: "update", text: fmt.Sprintf("v%d", g.Choose(3))})
		case 5:
			ops = append(ops, sessOp{kind: "erase"})
		case 6:
			a := []string{
				"update " + table + " where v is 'v1' set w = 'x'",
				"delete " + table + " where k > 'k3' and v is 'v2'",
				fmt.Sprintf("insert { k: 'z%d', v: 'v0' } into %s", g.Choose(4), table),
				"update " + table + " set v = 'v0'",
			}[g.Choose(4)]
			ops = append(ops, sessOp{kind: "action", text: a})
		case 7:
			ops = append(ops, sessOp{kind: "end", n: g.Choose(4)})
		case 8:
			q := []string{table + " where k is 'k1'", table + " where k is 'nope'", table + " sort k", table}[g.Choose(4)]
			ops = append(ops, sessOp{kind: "getone", text: q, dir: []core.Dir{core.Only, core.Next, core.Prev, core.Any}[g.Choose(4)]})
		case 9:
			if g.Coin(1, 2) {
				ops = append(ops, sessOp{kind: "admin", text: []string{"alter " + table + " create (z)", "alter " + table + " create index(w)", "ensure " + table + " (y)", "create " + table + " (a) key(a)", "alter " + table + " drop (z)", "alter " + table + " drop (w)"}[g.Choose(6)]})
			} else {
				ops = append(ops, sessOp{kind: "think", think: time.Duration(g.Choose(3000)) * time.Millisecond})
			}
		case 10:
			// a cursor lives outside transactions and is read inside whichever one is open
			qs := []string{table, table + " sort k", table + " where v is 'v1'", table + " project k,x", table + " remove w sort reverse k"}
			ops = append(ops, sessOp{kind: "cursor", text: qs[g.Choose(len(qs))]})
		case 11:
			ops = append(ops, sessOp{kind: "cget", dir: []core.Dir{core.Next, core.Next, core.Prev}[g.Choose(3)], n: g.Range(1, 5)})
		case 12:
			ops = append(ops, sessOp{kind: []string{"rewind", "crewind", "cclose", "qclose", "readcount", "writecount", "libget", "getbad"}[g.Choose(8)]})
		}
	}
	ops = append(ops, sessOp{kind: "end", n: 0})
	return ops
}

// side is one of the two executions of a session program.
type side struct {
	name string
	d    core.IDbms
	th   *core.Thread
	tran core.ITran
	q    core.IQuery
	cur  core.ICursor
	// the columns the cursor had when it was opened, and the last cursor read rendered
	// with those columns only
	curCols []string
	cgetAlt string
	qtext   string
	last    core.Row // last row read
	ltbl    string
}

// rowStr renders a row logically: the value of every column of the header.
func rowStr(row core.Row, hdr *core.Header) string {
	if row == nil {
		return "<none>"
	}
	var parts []string
	for _, c := range hdr.Columns {
		parts = append(parts, c+"="+short(row.GetRaw(hdr, c)))
	}
	return strings.Join(parts, ",")
}

func (sd *side) do(o sessOp, table string, bigval string) (res string) {
	err := try(func() {
		switch o.kind {
		case "begin":
			if sd.tran != nil {
				res = "skip"
				return
			}
			sd.tran = sd.d.Transaction(o.n == 0)
			sd.q = nil
			sd.last = nil
			res = "ok"
		case "query":
			if sd.tran == nil {
				res = "skip"
				return
			}
			sd.q = sd.tran.Query(o.text, nil)
			sd.qtext = o.text
			hdr := sd.q.Header()
			res = fmt.Sprintf("cols=%v keys=%v order=%v", hdr.Columns, sd.q.Keys(), sd.q.Order())
		case "get":
			if sd.q == nil {
				res = "skip"
				return
			}
			var out []string
			for i := 0; i < o.n; i++ {
				row, tbl := sd.q.Get(sd.th, o.dir)
				if row == nil {
					out = append(out, "<none>") // the table name means nothing without a row
					break
				}
				out = append(out, rowStr(row, sd.q.Header())+"@"+tbl)
				if len(row) == 1 {
					sd.last, sd.ltbl = row, tbl
				}
			}
			res = strings.Join(out, " ; ")
		case "output":
			if sd.tran == nil {
				res = "skip"
				return
			}
			q := sd.tran.Query(table, nil)
			rec := o.rec
			if o.big > 0 {
				rec = mkrec(strings.TrimPrefix(o.rec.GetRaw(0), string(rune(core.PackString))), "v0", bigval[:o.big], "xb")
			}
			q.Output(sd.th, rec)
			q.Close()
			res = "ok"
		case "update":
			if sd.tran == nil || sd.last == nil || sd.ltbl != table {
				res = "skip"
				return
			}
			old := sd.last[0].Record
			nr := mkrec(strings.TrimPrefix(old.GetRaw(0), string(rune(core.PackString))), o.text, "u", "xu")
			off := sd.tran.Update(sd.th, table, sd.last[0].Off, nr)
			sd.last = core.Row{core.DbRec{Record: nr, Off: off}}
			res = "ok"
		case "erase":
			if sd.tran == nil || sd.last == nil || sd.ltbl != table {
				res = "skip"
				return
			}
			sd.tran.Delete(sd.th, table, sd.last[0].Off)
			sd.last = nil
			res = "ok"
		case "action":
			if sd.tran == nil {
				res = "skip"
				return
			}
			n := sd.tran.Action(sd.th, o.text)
			res = fmt.Sprint("n=", n)
		case "getone":
			args := core.SuObjectOf(core.SuStr(o.text))
			var row core.Row
			var hdr *core.Header
			var tbl string
			if sd.tran != nil {
				row, hdr, tbl = sd.tran.Get(sd.th, args, o.dir)
			} else {
				row, hdr, tbl = sd.d.Get(sd.th, args, o.dir)
			}
			if row == nil {
				tbl = ""
			}
			if o.dir == core.Any {
				// the answer is a placeholder row that only says "exists"
				res = fmt.Sprint("exists=", row != nil)
			} else {
				res = rowStr(row, hdr) + "@" + tbl
			}
		case "end":
			if sd.tran == nil {
				res = "skip"
				return
			}
			if o.n == 1 {
				res = "abort:" + sd.tran.Abort()
			} else {
				res = "complete:" + sd.tran.Complete()
			}
			sd.tran, sd.q, sd.last = nil, nil, nil
		case "admin":
			if sd.tran != nil {
				res = "skip"
				return
			}
			sd.d.Admin(o.text, nil)
			res = "ok"
		case "think":
			res = "ok"
		case "cursor":
			if sd.cur != nil {
				sd.cur.Close()
			}
			sd.cur = sd.d.Cursor(o.text, nil)
			hdr := sd.cur.Header()
			sd.curCols = append([]string(nil), hdr.Columns...)
			res = fmt.Sprintf("cols=%v keys=%v order=%v", hdr.Columns, sd.cur.Keys(), sd.cur.Order())
		case "cget":
			if sd.cur == nil || sd.tran == nil {
				res = "skip"
				return
			}
			var out, alt []string
			sd.cgetAlt = ""
			for i := 0; i < o.n; i++ {
				row, tbl := sd.cur.Get(sd.th, sd.tran, o.dir)
				if row == nil {
					out = append(out, "<none>")
					alt = append(alt, "<none>")
					break
				}
				hdr := sd.cur.Header()
				out = append(out, rowStr(row, hdr)+"@"+tbl)
				var parts []string
				for _, c := range sd.curCols {
					parts = append(parts, c+"="+short(row.GetRaw(hdr, c)))
				}
				alt = append(alt, strings.Join(parts, ",")+"@"+tbl)
			}
			res = strings.Join(out, " ; ")
			sd.cgetAlt = strings.Join(alt, " ; ")
		case "rewind":
			if sd.q == nil {
				res = "skip"
				return
			}
			sd.q.Rewind()
			res = "ok"
		case "crewind":
			if sd.cur == nil {
				res = "skip"
				return
			}
			sd.cur.Rewind()
			res = "ok"
		case "cclose":
			if sd.cur == nil {
				res = "skip"
				return
			}
			sd.cur.Close()
			sd.cur = nil
			res = "ok"
		case "qclose":
			if sd.q == nil {
				res = "skip"
				return
			}
			sd.q.Close()
			sd.q = nil
			res = "ok"
		case "readcount":
			if sd.tran == nil {
				res = "skip"
				return
			}
			res = fmt.Sprint(sd.tran.ReadCount())
		case "writecount":
			if sd.tran == nil {
				res = "skip"
				return
			}
			res = fmt.Sprint(sd.tran.WriteCount())
		case "libget":
			res = fmt.Sprint(sd.d.LibGet("Foo"), sd.d.Libraries())
		case "getbad":
			// an argument that cannot be transmitted (an object that contains itself): the
			// client has to give up the request it has begun to build
			args := core.SuObjectOf(core.SuStr(table))
			args.Set(core.SuStr("k"), args)
			var row core.Row
			if sd.tran != nil {
				row, _, _ = sd.tran.Get(sd.th, args, core.Any)
			} else {
				row, _, _ = sd.d.Get(sd.th, args, core.Any)
			}
			res = fmt.Sprint(row != nil)
		}
	})
	if err != "" {
		// a failed operation inside a transaction leaves the transaction as it is
		return "error: " + strings.TrimSuffix(err, " (from server)")
	}
	return res
}

// bothDoomed: both executions failed and at least one of them because the transaction had
// already been aborted. A failed write aborts its transaction asynchronously (a message to
// the checker), so whether the next operation sees "transaction aborted" or fails for its
// own reason depends on timing, not on the access path.
func bothDoomed(r, l string) bool {
	if !strings.HasPrefix(r, "error") || !strings.HasPrefix(l, "error") {
		return false
	}
	doomed := func(s string) bool {
		return strings.Contains(s, "transaction aborted") || strings.Contains(s, "already ended")
	}
	return doomed(r) || doomed(l)
}

func short(s string) string {
	if len(s) > 120 {
		return fmt.Sprintf("%s...(%d bytes, sum %d)", s[:120], len(s), sum(s))
	}
	return s
}

func sum(s string) uint32 {
	var x uint32 = 2166136261
	for i := 0; i < len(s); i++ {
		x = (x ^ uint32(s[i])) * 16777619
	}
	return x
}

func (h *harness) runC40() {
	s, g := h.s, h.g
	chunk := 1 << 22
	persist := time.Duration([]int{1000, 5000, 60000}[g.Choose(3)]) * time.Millisecond
	srv, twin := newEnv(chunk, persist), newEnv(chunk, persist)
	core.GetDbms = func() core.IDbms { return srv.dl }
	core.DbmsAuth = true
	dbms.VerifStartServer()
	nsess := g.Range(1, 4)
	bigval := strings.Repeat("0123456789abcdef", 60000)
	// one of the initial rows may be large (large rows take their own paths in the server)
	initBig, initBigLen := g.Choose(12), 10_000+g.Choose(60_000)
	// identical initial contents
	for i := 0; i < nsess; i++ {
		tbl := fmt.Sprintf("s%d", i)
		for _, e := range []*env{srv, twin} {
			e.dl.Admin(fmt.Sprintf("create %s (k,v,w,x) key(k) index(v)", tbl), nil)
			t := e.dl.Transaction(true)
			q := t.Query(tbl, nil)
			for r := 0; r < 6; r++ {
				w := ""
				if r == initBig {
					w = bigval[:initBigLen]
				}
				q.Output(setupTh, mkrec(fmt.Sprintf("k%d", r), fmt.Sprintf("v%d", r%3), w, fmt.Sprintf("x%d", r)))
			}
			if res := t.Complete(); res != "" {
				s.Machine("setup commit failed: %s", res)
				return
			}
		}
	}
	cc := h.dial(srv, "main", g.Coin(4, 5))
	if cc == nil {
		return
	}
	var wg simsync.WaitGroup
	var adminMu simsync.Mutex
	for i := 0; i < nsess; i++ {
		i := i
		tbl := fmt.Sprintf("s%d", i)
		ops := h.genSession(tbl, s.Tape.Stream(fmt.Sprintf("sess%d", i)))
		wg.Add(1)
		s.GoNamed(fmt.Sprintf("session%d", i), func() {
			defer wg.Done()
			// successful schema changes of the session's table so far, and their number when
			// the cursor was opened
			epoch, curEpoch := 0, 0
			remote := &side{name: "remote", d: cc.newSession(), th: core.NewThread(nil)}
			local := &side{name: "local", d: twin.dl, th: core.NewThread(nil)}
			for n, o := range ops {
				if s.Over() {
					return
				}
				if o.kind == "think" {
					simrt.Sleep(o.think)
					continue
				}
				if o.kind == "admin" {
					// concurrent schema modifications are refused by design; which of two
					// concurrent requests is refused depends on the schedule, so the sessions
					// take turns with their admin requests
					adminMu.Lock()
				}
				r := remote.do(o, tbl, bigval)
				l := local.do(o, tbl, bigval)
				if o.kind == "admin" {
					adminMu.Unlock()
				}
				h.logf("session%d #%d %s %s => %s", i, n, o.kind, short(o.text), short(r))
				h.ri.Count("c40.ops", 1)
				if strings.HasPrefix(r, "error") {
					h.ri.Count("c40.ops-with-error-result", 1)
				}
				if o.kind == "getbad" {
					// what direct access makes of such an argument is not comparable; through
					// the server it must be refused, and the session must go on working (the
					// following operations are compared as usual)
					if !strings.HasPrefix(r, "error") {
						h.fail("C40/result-differs", "C40/result-differs/getbad", "session %d operation %d: a request whose argument cannot be packed returned %s", i, n, short(r))
						return
					}
					continue
				}
				if o.kind == "admin" && r == "ok" {
					epoch++
				}
				if o.kind == "cursor" {
					curEpoch = epoch
				}
				if r != l && o.kind == "cget" && (r == local.cgetAlt || curEpoch < epoch) {
					// known finding (known_findings.json): the client keeps the header a cursor
					// had when it was opened, a local cursor takes the header of the transaction
					// it is read in; they differ after a schema change of the table
					h.fail("C40/result-differs", "C40/result-differs/cursor-header-after-schema-change", "session %d operation %d (cursor read after the table's columns changed): through the server the rows are decoded with the columns the cursor was opened with: %s ; locally with the current columns: %s", i, n, short(r), short(l))
					return
				}
				if r != l && !bothDoomed(r, l) {
					h.fail("C40/result-differs", "C40/result-differs/"+o.kind, "session %d operation %d (%s %s): through the server: %s ; locally: %s", i, n, o.kind, short(o.text), short(r), short(l))
					return
				}
			}
			try(func() { remote.d.Close() })
		})
	}
	wg.Wait()
	if s.Over() {
		return
	}
	var a, b string
	var ea, eb error
	s.Inspect(func() {
		a, ea = contents(srv.db)
		b, eb = contents(twin.db)
	})
	if ea != nil || eb != nil || a != b {
		h.fail("C40/contents-differ", "", "after the same programs the database behind the server and the local one differ (%v %v):\n%s\nvs\n%s", ea, eb, a, b)
		return
	}
	h.ri.Nontrivial = nsess >= 1
	h.ri.Count("c40.sessions", int64(nsess))
	h.ri.Sample = map[string]any{"sessions": nsess, "log": tailStr(h.log, 25), "policy": s.PolicyName()}
	try(func() { srv.db.Close() })
	try(func() { twin.db.Close() })
}

// ---------------------------------------------------------------------------------------
// C41: unauthorized connections

const goodUser, goodHash = "u1", "secret-hash"

func authString(user, passhash, nonce string) string {
	hash := sha1.Sum([]byte(nonce + passhash))
	return user + "\x00" + string(hash[:])
}

// rawSession gives access to the exported methods of the (unexported) client session type.
type rawSession interface {
	core.IDbms
	PutCmd(commands.Command) *mux.WriteBuf
	Request()
}

func (h *harness) runC41() {
	s, g := h.s, h.g
	srv := newEnv(1<<20, 60*time.Second)
	core.GetDbms = func() core.IDbms { return srv.dl }
	core.DbmsAuth = true
	dbms.VerifStartServer()
	srv.dl.Admin("create users (user, passhash) key(user)", nil)
	srv.dl.Admin("create data (k, v) key(k)", nil)
	if g.Coin(1, 3) {
		// the database has no users yet when the first connection arrives (that connection
		// is not restricted); the first user is then added by an ordinary transaction, and
		// every connection accepted afterwards must be restricted
		if early := h.dial(srv, "early", false); early != nil {
			es := early.newSession()
			try(func() { es.Libraries() })
			try(func() { es.Close() })
			h.ri.Count("c41.connection-before-first-user", 1)
		} else {
			return
		}
	}
	t := srv.dl.Transaction(true)
	q := t.Query("users", nil)
	q.Output(setupTh, mkrec(goodUser, goodHash))
	q = t.Query("data", nil)
	for i := 0; i < 4; i++ {
		q.Output(setupTh, mkrec(fmt.Sprintf("k%d", i), "v"))
	}
	if res := t.Complete(); res != "" {
		s.Machine("setup commit failed: %s", res)
		return
	}
	var before string
	s.Inspect(func() { before, _ = contents(srv.db) })

	// the authenticated connection
	good := h.dial(srv, "good", false)
	if good == nil {
		return
	}
	gs := good.newSession()
	gth := core.NewThread(nil)
	nonce := gs.Nonce(gth)
	authOK := false
	if res := try(func() { authOK = gs.Auth(gth, authString(goodUser, goodHash, nonce)) }); res != "" {
		if strings.Contains(res, "already authorized") {
			h.fail("C41/not-refused", "C41/connection-not-restricted", "a connection accepted while the database has users is not restricted: Auth answered %q", res)
		} else {
			h.fail("C41/auth-rejected", "", "a correct password hash over a fresh nonce raised %s", res)
		}
		return
	}
	if !authOK {
		h.fail("C41/auth-rejected", "", "a correct password hash over a fresh nonce was rejected")
		return
	}
	gs.SessionId(gth, "good-session")
	var tokens []string // tokens handed to the authenticated party
	for i := g.Choose(3); i > 0; i-- {
		tokens = append(tokens, gs.Token())
	}
	var otherNonces []string
	var nrefused, nallowed int64

	// refused sends one request that an unauthenticated connection must not be served
	// (kind 3: a typed call, kind 4: a raw command referring to a transaction, query or cursor)
	refused := func(sess rawSession, th *core.Thread, gs2 *simrt.Stream, who string, c int, kind int) bool {
		switch kind {
		case 3: // requests that must be refused: typed calls
			name := ""
			res := try(func() {
				switch gs2.Choose(17) {
				case 0:
					name = "Admin"
					sess.Admin("create hacked (a) key(a)", nil)
				case 1:
					name = "Check"
					sess.Check(false)
				case 2:
					name = "Connections"
					sess.Connections()
				case 3:
					name = "Cursor"
					sess.Cursor("data", nil)
				case 4:
					name = "Cursors"
					sess.Cursors()
				case 5:
					name = "Exec"
					sess.Exec(th, core.SuObjectOf(core.SuStr("Database.Schema"), core.SuStr("data")))
				case 6:
					name = "Final"
					sess.Final()
				case 7:
					name = "Get"
					sess.Get(th, core.SuObjectOf(core.SuStr("data")), core.Any)
				case 8:
					name = "Info"
					sess.Info()
				case 9:
					name = "Kill"
					sess.Kill("good-session")
				case 10:
					name = "Log"
					sess.Log("hello")
				case 11:
					name = "Run"
					sess.Run(th, "1 + 1")
				case 12:
					name = "Size"
					sess.Size()
				case 13:
					name = "Timestamp"
					sess.Timestamp()
				case 14:
					name = "Token"
					tok := sess.Token()
					tokens = append(tokens, tok) // if it was handed out, using it is the next step
				case 15:
					name = "Transaction"
					sess.Transaction(gs2.Coin(1, 2))
				case 16:
					name = "Transactions"
					sess.Transactions()
				}
			})
			h.logf("%s %s -> %s", who, name, orOK(res))
			if res == "" {
				h.fail("C41/not-refused", "C41/not-refused/"+name, "unauthenticated connection %d (%s): %s was not refused", c, who, name)
				return false
			}
			atomicAdd(&nrefused)
		case 4: // raw commands that refer to transactions, queries and cursors
			cmds := []commands.Command{commands.Abort, commands.Commit, commands.Erase, commands.Update, commands.Query,
				commands.Action, commands.ReadCount, commands.WriteCount, commands.Asof, commands.Close, commands.Header,
				commands.Keys, commands.Order, commands.Rewind, commands.Strategy, commands.Get, commands.Output}
			cmd := cmds[gs2.Choose(len(cmds))]
			id := gs2.Choose(4)
			res := try(func() {
				wb := sess.PutCmd(cmd)
				switch cmd {
				case commands.Abort, commands.Commit, commands.ReadCount, commands.WriteCount:
					wb.PutInt(id)
				case commands.Erase:
					wb.PutInt(id).PutStr("data").PutInt64(100)
				case commands.Update:
					wb.PutInt(id).PutStr("data").PutInt64(100).PutRec(mkrec("k0", "hacked"))
				case commands.Query:
					wb.PutInt(id).PutStr("data")
				case commands.Action:
					wb.PutInt(id).PutStr("delete data")
				case commands.Asof:
					wb.PutInt(id).PutInt64(1)
				case commands.Close, commands.Header, commands.Keys, commands.Order, commands.Rewind:
					wb.PutInt(id).PutByte([]byte{'q', 'c'}[gs2.Choose(2)])
				case commands.Strategy:
					wb.PutInt(id).PutByte('q').PutBool(false)
				case commands.Get:
					wb.PutByte('+').PutInt(id).PutInt(id)
				case commands.Output:
					wb.PutInt(id).PutRec(mkrec("k9", "hacked"))
				}
				sess.Request()
			})
			h.logf("%s raw %v id=%d -> %s", who, cmd, id, orOK(res))
			if res == "" {
				h.fail("C41/not-refused", "C41/not-refused/"+cmd.String(), "unauthenticated connection %d (%s): raw command %v (id %d) was not refused", c, who, cmd, id)
				return false
			}
			atomicAdd(&nrefused)
		}
		return true
	}
	nbad := g.Range(1, 3)
	var wg simsync.WaitGroup
	for c := 0; c < nbad; c++ {
		c := c
		cc := h.dial(srv, fmt.Sprintf("bad%d", c), g.Coin(1, 2))
		if cc == nil {
			return
		}
		gs2 := s.Tape.Stream(fmt.Sprintf("bad%d", c))
		// a second session on the same unauthenticated connection, which keeps sending requests
		// that must be refused while the first one tries to authenticate. It is stopped (no
		// request in flight) before an attempt that may legitimately succeed.
		var sideMu simsync.Mutex
		sideStop := false
		quiesceSide := func() {
			sideMu.Lock()
			sideStop = true
			sideMu.Unlock()
		}
		if g.Coin(1, 2) {
			gs3 := s.Tape.Stream(fmt.Sprintf("bad%d-side", c))
			wg.Add(1)
			s.GoNamed(fmt.Sprintf("unauth%d-side", c), func() {
				defer wg.Done()
				sess := cc.newSession().(rawSession)
				th := core.NewThread(nil)
				who := fmt.Sprintf("bad%d-side", c)
				for i := gs3.Range(3, 40); i > 0 && !s.Over(); i-- {
					if gs3.Coin(1, 3) {
						simrt.Sleep(time.Duration(gs3.Choose(400)) * time.Millisecond)
					}
					sideMu.Lock()
					if sideStop {
						sideMu.Unlock()
						return
					}
					ok := refused(sess, th, gs3, who, c, 3+gs3.Choose(2))
					sideMu.Unlock()
					if !ok {
						return
					}
				}
			})
		}
		wg.Add(1)
		s.GoNamed(fmt.Sprintf("unauth%d", c), func() {
			defer wg.Done()
			defer quiesceSide()
			sess := cc.newSession().(rawSession)
			th := core.NewThread(nil)
			authorized := false
			myNonce := ""
			nonceUsed := false
			nonceTime := time.Duration(0)
			nreq := gs2.Range(5, 60)
			for i := 0; i < nreq && !s.Over() && !authorized; i++ {
				if gs2.Coin(1, 25) {
					simrt.Sleep(time.Duration(30+gs2.Choose(120)) * time.Second) // let nonces and tokens expire
				}
				kind := gs2.Pick(3, 2, 3, 14, 8)
				switch kind {
				case 0: // nonce
					res := try(func() { myNonce = sess.Nonce(th) })
					if res == "" {
						nonceUsed = false
						nonceTime = s.Elapsed()
						otherNonces = append(otherNonces, myNonce)
					}
					h.logf("bad%d nonce -> %s", c, orOK(res))
				case 1: // harmless allowed requests
					res := try(func() {
						switch gs2.Choose(3) {
						case 0:
							sess.Libraries()
						case 1:
							sess.LibGet("Foo")
						case 2:
							sess.SessionId(th, fmt.Sprintf("bad%d-%d", c, i))
							th.SetSession("")
						}
					})
					atomicAdd(&nallowed)
					h.logf("bad%d allowed request -> %s", c, orOK(res))
				case 2: // authentication attempts
					what := gs2.Pick(3, 2, 2, 2, 2, 2, 2)
					var data string
					expect := false
					desc := ""
					switch what {
					case 0:
						data, desc = authString(goodUser, "wrong", myNonce), "wrong password"
					case 1:
						// the right password over this connection's nonce: valid only if the
						// nonce is fresh (issued to this connection, unused, not expired)
						data, desc = authString(goodUser, goodHash, myNonce), "right password over own nonce"
						age := s.Elapsed() - nonceTime
						if myNonce != "" && !nonceUsed && age < 55*time.Second {
							expect = true
						} else if myNonce != "" && !nonceUsed {
							// expiry happens at the second pass of the background task after the
							// nonce was issued; when that is depends on the schedule, so an aged
							// nonce may or may not still be valid
							desc = "skip"
						}
					case 2:
						if len(otherNonces) == 0 {
							continue
						}
						n := otherNonces[gs2.Choose(len(otherNonces))]
						if n == myNonce {
							continue
						}
						data, desc = authString(goodUser, goodHash, n), "right password over another connection's nonce"
					case 3:
						data, desc = fmt.Sprintf("tok%016d", gs2.Choose(1000)), "made up token"
					case 4:
						if len(tokens) == 0 {
							continue
						}
						// a token that was handed to the authenticated party: valid once, until it expires
						k := gs2.Choose(len(tokens))
						data, desc = tokens[k], "skip"
						tokens = append(tokens[:k], tokens[k+1:]...)
					case 5:
						data, desc = "", "empty"
					case 6:
						// a user that does not exist has no password hash
						data, desc = authString(fmt.Sprintf("nobody%d", gs2.Choose(3)), "", myNonce), "unknown user with an empty password hash over own nonce"
					}
					if expect || desc == "skip" {
						quiesceSide()
					}
					ok := false
					res := try(func() { ok = sess.Auth(th, data) })
					if data != "" {
						nonceUsed = true // any attempt that reaches the server consumes the connection's nonce
					}
					h.logf("bad%d auth (%s) -> %v %s", c, desc, ok, res)
					if desc == "skip" {
						if ok {
							authorized = true
						}
						continue
					}
					if ok && !expect {
						h.fail("C41/auth-accepted", "C41/auth-accepted/"+desc, "unauthenticated connection %d: Auth with %s was accepted", c, desc)
						return
					}
					if !ok && expect && res == "" {
						h.fail("C41/auth-rejected", "", "connection %d: the right password over its own fresh nonce was rejected", c)
						return
					}
					if ok {
						authorized = true
					}
				case 3, 4:
					if !refused(sess, th, gs2, fmt.Sprintf("bad%d", c), c, kind) {
						return
					}
				}
			}
		})
	}
	// meanwhile the authenticated session keeps working
	wg.Add(1)
	s.GoNamed("authenticated", func() {
		defer wg.Done()
		for i := 0; i < 6 && !s.Over(); i++ {
			simrt.Sleep(time.Duration(g.Choose(20000)) * time.Millisecond)
			res := try(func() {
				row, _, _ := gs.Get(gth, core.SuObjectOf(core.SuStr("data where k is 'k1'")), core.Only)
				if row == nil {
					panic("row k1 not found")
				}
			})
			if res != "" {
				h.fail("C41/session-affected", "", "the authenticated session failed while unauthenticated connections were active: %s", res)
				return
			}
		}
	})
	wg.Wait()
	if s.Over() {
		return
	}
	var after string
	s.Inspect(func() { after, _ = contents(srv.db) })
	if after != before {
		h.fail("C41/data-changed", "", "the database changed although only unauthenticated connections sent changing requests:\n%s\nvs\n%s", before, after)
		return
	}
	h.ri.Count("c41.refused", nrefused)
	h.ri.Count("c41.allowed", nallowed)
	h.ri.Nontrivial = nrefused >= 3
	h.ri.Sample = map[string]any{"unauthenticated_connections": nbad, "log": tailStr(h.log, 30), "policy": s.PolicyName()}
	try(func() { srv.db.Close() })
}

func atomicAdd(p *int64) { *p++ }

func orOK(s string) string {
	if s == "" {
		return "ok"
	}
	return s
}

var setupTh *core.Thread

func Run(s *simrt.Sim, mode string, ri *hkit.RunInfo) {
	setupTh = core.NewThread(nil)
	h := &harness{s: s, ri: ri, prop: mode, g: s.Tape.Stream("gen")}
	s.Context = func() string { return "log:\n  " + strings.Join(tailStr(h.log, 60), "\n  ") }
	db19.VerifReset()
	core.VerifResetTimestamps()
	dbms.VerifResetServer()
	db19.MaxAge = 100000
	options.Nworkers = 2
	options.TimeoutMinutes = 100000
	db19.MakeSuTran = func(ut *db19.UpdateTran) *core.SuTran { return core.NewSuTran(nil, true) }
	core.Exit = func(code int) { panic(simrt.Fatal{Msg: fmt.Sprintf("core.Exit(%d)", code)}) }
	sub := mode
	if mode == "ALL" {
		sub = []string{"C40", "C41"}[h.g.Choose(2)]
	}
	if sub == "C41" {
		h.runC41()
	} else {
		h.runC40()
	}
}
