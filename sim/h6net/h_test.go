package h6net

import (
	"testing"

	"github.com/apmckinlay/gsuneido/core"
	"github.com/apmckinlay/gsuneido/options"

	"verifsim/hkit"
	"verifsim/simrt"
)

func TestSim(t *testing.T) {
	options.BuiltDate = "Jan 1 2000 12:00:00" // the hello exchange compares build dates
	hkit.Main(t, hkit.Harness{
		Name: "h6net",
		Config: func(mode string) simrt.Config {
			c := simrt.DefaultConfig()
			c.MaxSteps, c.FairSteps = 3_000_000, 3_000_000
			c.MaxSimTime, c.FairSimTime = 6*3600e9, 6*3600e9
			c.AdvanceNum, c.AdvanceDen = 1, 500
			return c
		},
		Main: Run,
		Warmup: func(string) {
			for _, n := range []string{"s0", "s1", "s2", "s3", "users", "data", "hacked"} {
				core.Global.FindName(nil, "Trigger_"+n)
			}
		},
		WarmupRuns: 24,
	})
}
