// Package simsync is a drop-in replacement for package sync whose blocking is simulated:
// a contended Lock parks the task in the scheduler, which wakes it by tape choice.
// With no active simulation every primitive falls back to the real one.
package simsync

import (
	"sync"

	"verifsim/simrt"
)

type Locker = sync.Locker

// Mutex -----------------------------------------------------------------------

type Mutex struct {
	real    sync.Mutex
	held    bool
	owner   *simrt.Sim // a lock left held by a leaked task of an earlier run does not count
	waiters []*simrt.Task
}

func (m *Mutex) Lock() {
	s := simrt.Active()
	if s == nil {
		m.real.Lock()
		return
	}
	s.YieldSync()
	for m.held && m.owner == s {
		if s.Terminating() {
			return
		}
		s.Block(&m.waiters, "mutex")
	}
	m.held = true
	m.owner = s
}

func (m *Mutex) TryLock() bool {
	s := simrt.Active()
	if s == nil {
		return m.real.TryLock()
	}
	s.YieldSync()
	if m.held && m.owner == s {
		return false
	}
	m.held = true
	m.owner = s
	return true
}

func (m *Mutex) Unlock() {
	s := simrt.Active()
	if s == nil {
		m.real.Unlock()
		return
	}
	if !m.held || m.owner != s {
		if s.Terminating() {
			return
		}
		panic("sync: unlock of unlocked mutex")
	}
	m.held = false
	s.Unblock(&m.waiters)
}

// RWMutex ---------------------------------------------------------------------

type RWMutex struct {
	real    sync.RWMutex
	writer  bool
	readers int
	owner   *simrt.Sim
	waiters []*simrt.Task
}

func (m *RWMutex) epoch(s *simrt.Sim) {
	if m.owner != s {
		m.owner = s
		m.writer = false
		m.readers = 0
		m.waiters = nil
	}
}

func (m *RWMutex) Lock() {
	s := simrt.Active()
	if s == nil {
		m.real.Lock()
		return
	}
	s.YieldSync()
	m.epoch(s)
	for m.writer || m.readers > 0 {
		if s.Terminating() {
			return
		}
		s.Block(&m.waiters, "rwmutex.Lock")
	}
	m.writer = true
}

func (m *RWMutex) TryLock() bool {
	s := simrt.Active()
	if s == nil {
		return m.real.TryLock()
	}
	s.YieldSync()
	m.epoch(s)
	if m.writer || m.readers > 0 {
		return false
	}
	m.writer = true
	return true
}

func (m *RWMutex) Unlock() {
	s := simrt.Active()
	if s == nil {
		m.real.Unlock()
		return
	}
	m.epoch(s)
	if !m.writer {
		if s.Terminating() {
			return
		}
		panic("sync: Unlock of unlocked RWMutex")
	}
	m.writer = false
	s.Unblock(&m.waiters)
}

func (m *RWMutex) RLock() {
	s := simrt.Active()
	if s == nil {
		m.real.RLock()
		return
	}
	s.YieldSync()
	m.epoch(s)
	for m.writer {
		if s.Terminating() {
			return
		}
		s.Block(&m.waiters, "rwmutex.RLock")
	}
	m.readers++
}

func (m *RWMutex) TryRLock() bool {
	s := simrt.Active()
	if s == nil {
		return m.real.TryRLock()
	}
	s.YieldSync()
	m.epoch(s)
	if m.writer {
		return false
	}
	m.readers++
	return true
}

func (m *RWMutex) RUnlock() {
	s := simrt.Active()
	if s == nil {
		m.real.RUnlock()
		return
	}
	m.epoch(s)
	if m.readers <= 0 {
		if s.Terminating() {
			return
		}
		panic("sync: RUnlock of unlocked RWMutex")
	}
	m.readers--
	if m.readers == 0 {
		s.Unblock(&m.waiters)
	}
}

type rlocker RWMutex

func (r *rlocker) Lock()   { (*RWMutex)(r).RLock() }
func (r *rlocker) Unlock() { (*RWMutex)(r).RUnlock() }

func (m *RWMutex) RLocker() Locker { return (*rlocker)(m) }

// Cond ------------------------------------------------------------------------

type Cond struct {
	L       Locker
	real    *sync.Cond
	rmu     sync.Mutex
	waiters []*simrt.Task
}

func NewCond(l Locker) *Cond { return &Cond{L: l} }

func (c *Cond) realCond() *sync.Cond {
	c.rmu.Lock()
	defer c.rmu.Unlock()
	if c.real == nil {
		c.real = sync.NewCond(c.L)
	}
	return c.real
}

func (c *Cond) Wait() {
	s := simrt.Active()
	if s == nil {
		c.realCond().Wait()
		return
	}
	if s.Terminating() {
		return
	}
	// atomically (no yield in between) release the lock and join the waiters
	c.L.Unlock()
	s.Block(&c.waiters, "cond")
	c.L.Lock()
}

func (c *Cond) Signal() {
	s := simrt.Active()
	if s == nil {
		c.realCond().Signal()
		return
	}
	s.YieldSync()
	s.UnblockOne(&c.waiters)
}

func (c *Cond) Broadcast() {
	s := simrt.Active()
	if s == nil {
		c.realCond().Broadcast()
		return
	}
	s.YieldSync()
	s.Unblock(&c.waiters)
}

// WaitGroup -------------------------------------------------------------------

type WaitGroup struct {
	real    sync.WaitGroup
	n       int
	owner   *simrt.Sim
	waiters []*simrt.Task
}

func (wg *WaitGroup) epoch(s *simrt.Sim) {
	if wg.owner != s {
		wg.owner = s
		wg.n = 0
		wg.waiters = nil
	}
}

func (wg *WaitGroup) Add(delta int) {
	s := simrt.Active()
	if s == nil {
		wg.real.Add(delta)
		return
	}
	s.YieldSync()
	wg.epoch(s)
	wg.n += delta
	if wg.n < 0 {
		if s.Terminating() {
			wg.n = 0
			return
		}
		panic("sync: negative WaitGroup counter")
	}
	if wg.n == 0 {
		s.Unblock(&wg.waiters)
	}
}

func (wg *WaitGroup) Done() { wg.Add(-1) }

func (wg *WaitGroup) Wait() {
	s := simrt.Active()
	if s == nil {
		wg.real.Wait()
		return
	}
	s.YieldSync()
	wg.epoch(s)
	for wg.n > 0 {
		if s.Terminating() {
			return
		}
		s.Block(&wg.waiters, "waitgroup")
	}
}

func (wg *WaitGroup) Go(f func()) {
	s := simrt.Active()
	if s == nil {
		wg.real.Go(f)
		return
	}
	wg.Add(1)
	simrt.Go(func() {
		defer wg.Done()
		f()
	})
}

// Once ------------------------------------------------------------------------

type Once struct {
	real    sync.Once
	done    bool
	running bool
	owner   *simrt.Sim
	waiters []*simrt.Task
}

func (o *Once) Do(f func()) {
	s := simrt.Active()
	if s == nil {
		if o.done {
			return
		}
		o.real.Do(func() {
			defer func() { o.done = true }()
			f()
		})
		return
	}
	s.YieldSync()
	if o.owner != s {
		o.owner = s
		o.running = false
		o.waiters = nil
	}
	for o.running {
		if s.Terminating() {
			return
		}
		s.Block(&o.waiters, "once")
	}
	if o.done {
		return
	}
	o.running = true
	defer func() {
		o.done = true
		o.running = false
		s.Unblock(&o.waiters)
	}()
	f()
}

func OnceFunc(f func()) func() {
	var once Once
	var valid bool
	var p any
	g := func() {
		defer func() {
			p = recover()
			if !valid {
				panic(p)
			}
		}()
		f()
		f = nil
		valid = true
	}
	return func() {
		once.Do(g)
		if !valid {
			panic(p)
		}
	}
}

func OnceValue[T any](f func() T) func() T {
	var once Once
	var valid bool
	var p any
	var result T
	g := func() {
		defer func() {
			p = recover()
			if !valid {
				panic(p)
			}
		}()
		result = f()
		f = nil
		valid = true
	}
	return func() T {
		once.Do(g)
		if !valid {
			panic(p)
		}
		return result
	}
}

func OnceValues[T1, T2 any](f func() (T1, T2)) func() (T1, T2) {
	var once Once
	var valid bool
	var p any
	var r1 T1
	var r2 T2
	g := func() {
		defer func() {
			p = recover()
			if !valid {
				panic(p)
			}
		}()
		r1, r2 = f()
		f = nil
		valid = true
	}
	return func() (T1, T2) {
		once.Do(g)
		if !valid {
			panic(p)
		}
		return r1, r2
	}
}

// Pool never reuses while a simulation is active, so behaviour cannot depend on GC timing.
type Pool struct {
	real sync.Pool
	New  func() any
}

func (p *Pool) Get() any {
	if simrt.Active() == nil {
		if p.real.New == nil {
			p.real.New = p.New
		}
		return p.real.Get()
	}
	if p.New != nil {
		return p.New()
	}
	return nil
}

func (p *Pool) Put(x any) {
	if simrt.Active() == nil {
		p.real.Put(x)
	}
}
