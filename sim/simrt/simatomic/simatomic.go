// Package simatomic is a drop-in replacement for sync/atomic with a scheduling point
// before every operation.
package simatomic

import (
	"sync/atomic"
	"unsafe"

	"verifsim/simrt"
)

type Int32 struct{ v atomic.Int32 }

func (x *Int32) Load() int32        { simrt.Yield(); return x.v.Load() }
func (x *Int32) Store(v int32)      { simrt.Yield(); x.v.Store(v) }
func (x *Int32) Swap(v int32) int32 { simrt.Yield(); return x.v.Swap(v) }
func (x *Int32) Add(d int32) int32  { simrt.Yield(); return x.v.Add(d) }
func (x *Int32) And(m int32) int32  { simrt.Yield(); return x.v.And(m) }
func (x *Int32) Or(m int32) int32   { simrt.Yield(); return x.v.Or(m) }
func (x *Int32) CompareAndSwap(o, n int32) bool {
	simrt.Yield()
	return x.v.CompareAndSwap(o, n)
}

type Int64 struct{ v atomic.Int64 }

func (x *Int64) Load() int64        { simrt.Yield(); return x.v.Load() }
func (x *Int64) Store(v int64)      { simrt.Yield(); x.v.Store(v) }
func (x *Int64) Swap(v int64) int64 { simrt.Yield(); return x.v.Swap(v) }
func (x *Int64) Add(d int64) int64  { simrt.Yield(); return x.v.Add(d) }
func (x *Int64) And(m int64) int64  { simrt.Yield(); return x.v.And(m) }
func (x *Int64) Or(m int64) int64   { simrt.Yield(); return x.v.Or(m) }
func (x *Int64) CompareAndSwap(o, n int64) bool {
	simrt.Yield()
	return x.v.CompareAndSwap(o, n)
}

type Uint32 struct{ v atomic.Uint32 }

func (x *Uint32) Load() uint32         { simrt.Yield(); return x.v.Load() }
func (x *Uint32) Store(v uint32)       { simrt.Yield(); x.v.Store(v) }
func (x *Uint32) Swap(v uint32) uint32 { simrt.Yield(); return x.v.Swap(v) }
func (x *Uint32) Add(d uint32) uint32  { simrt.Yield(); return x.v.Add(d) }
func (x *Uint32) And(m uint32) uint32  { simrt.Yield(); return x.v.And(m) }
func (x *Uint32) Or(m uint32) uint32   { simrt.Yield(); return x.v.Or(m) }
func (x *Uint32) CompareAndSwap(o, n uint32) bool {
	simrt.Yield()
	return x.v.CompareAndSwap(o, n)
}

type Uint64 struct{ v atomic.Uint64 }

func (x *Uint64) Load() uint64         { simrt.Yield(); return x.v.Load() }
func (x *Uint64) Store(v uint64)       { simrt.Yield(); x.v.Store(v) }
func (x *Uint64) Swap(v uint64) uint64 { simrt.Yield(); return x.v.Swap(v) }
func (x *Uint64) Add(d uint64) uint64  { simrt.Yield(); return x.v.Add(d) }
func (x *Uint64) And(m uint64) uint64  { simrt.Yield(); return x.v.And(m) }
func (x *Uint64) Or(m uint64) uint64   { simrt.Yield(); return x.v.Or(m) }
func (x *Uint64) CompareAndSwap(o, n uint64) bool {
	simrt.Yield()
	return x.v.CompareAndSwap(o, n)
}

type Uintptr struct{ v atomic.Uintptr }

func (x *Uintptr) Load() uintptr          { simrt.Yield(); return x.v.Load() }
func (x *Uintptr) Store(v uintptr)        { simrt.Yield(); x.v.Store(v) }
func (x *Uintptr) Swap(v uintptr) uintptr { simrt.Yield(); return x.v.Swap(v) }
func (x *Uintptr) Add(d uintptr) uintptr  { simrt.Yield(); return x.v.Add(d) }
func (x *Uintptr) CompareAndSwap(o, n uintptr) bool {
	simrt.Yield()
	return x.v.CompareAndSwap(o, n)
}

type Bool struct{ v atomic.Bool }

func (x *Bool) Load() bool       { simrt.Yield(); return x.v.Load() }
func (x *Bool) Store(v bool)     { simrt.Yield(); x.v.Store(v) }
func (x *Bool) Swap(v bool) bool { simrt.Yield(); return x.v.Swap(v) }
func (x *Bool) CompareAndSwap(o, n bool) bool {
	simrt.Yield()
	return x.v.CompareAndSwap(o, n)
}

type Value struct{ v atomic.Value }

func (x *Value) Load() any      { simrt.Yield(); return x.v.Load() }
func (x *Value) Store(v any)    { simrt.Yield(); x.v.Store(v) }
func (x *Value) Swap(v any) any { simrt.Yield(); return x.v.Swap(v) }
func (x *Value) CompareAndSwap(o, n any) bool {
	simrt.Yield()
	return x.v.CompareAndSwap(o, n)
}

type Pointer[T any] struct{ v atomic.Pointer[T] }

func (x *Pointer[T]) Load() *T     { simrt.Yield(); return x.v.Load() }
func (x *Pointer[T]) Store(v *T)   { simrt.Yield(); x.v.Store(v) }
func (x *Pointer[T]) Swap(v *T) *T { simrt.Yield(); return x.v.Swap(v) }
func (x *Pointer[T]) CompareAndSwap(o, n *T) bool {
	simrt.Yield()
	return x.v.CompareAndSwap(o, n)
}

func AddInt32(p *int32, d int32) int32     { simrt.Yield(); return atomic.AddInt32(p, d) }
func AddInt64(p *int64, d int64) int64     { simrt.Yield(); return atomic.AddInt64(p, d) }
func AddUint32(p *uint32, d uint32) uint32 { simrt.Yield(); return atomic.AddUint32(p, d) }
func AddUint64(p *uint64, d uint64) uint64 { simrt.Yield(); return atomic.AddUint64(p, d) }
func LoadInt32(p *int32) int32             { simrt.Yield(); return atomic.LoadInt32(p) }
func LoadInt64(p *int64) int64             { simrt.Yield(); return atomic.LoadInt64(p) }
func LoadUint32(p *uint32) uint32          { simrt.Yield(); return atomic.LoadUint32(p) }
func LoadUint64(p *uint64) uint64          { simrt.Yield(); return atomic.LoadUint64(p) }
func LoadPointer(p *unsafe.Pointer) unsafe.Pointer {
	simrt.Yield()
	return atomic.LoadPointer(p)
}
func StoreInt32(p *int32, v int32)    { simrt.Yield(); atomic.StoreInt32(p, v) }
func StoreInt64(p *int64, v int64)    { simrt.Yield(); atomic.StoreInt64(p, v) }
func StoreUint32(p *uint32, v uint32) { simrt.Yield(); atomic.StoreUint32(p, v) }
func StoreUint64(p *uint64, v uint64) { simrt.Yield(); atomic.StoreUint64(p, v) }
func StorePointer(p *unsafe.Pointer, v unsafe.Pointer) {
	simrt.Yield()
	atomic.StorePointer(p, v)
}
func SwapInt32(p *int32, v int32) int32     { simrt.Yield(); return atomic.SwapInt32(p, v) }
func SwapInt64(p *int64, v int64) int64     { simrt.Yield(); return atomic.SwapInt64(p, v) }
func SwapUint32(p *uint32, v uint32) uint32 { simrt.Yield(); return atomic.SwapUint32(p, v) }
func SwapUint64(p *uint64, v uint64) uint64 { simrt.Yield(); return atomic.SwapUint64(p, v) }
func CompareAndSwapInt32(p *int32, o, n int32) bool {
	simrt.Yield()
	return atomic.CompareAndSwapInt32(p, o, n)
}
func CompareAndSwapInt64(p *int64, o, n int64) bool {
	simrt.Yield()
	return atomic.CompareAndSwapInt64(p, o, n)
}
func CompareAndSwapUint32(p *uint32, o, n uint32) bool {
	simrt.Yield()
	return atomic.CompareAndSwapUint32(p, o, n)
}
func CompareAndSwapUint64(p *uint64, o, n uint64) bool {
	simrt.Yield()
	return atomic.CompareAndSwapUint64(p, o, n)
}
