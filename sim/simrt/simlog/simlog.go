// Package simlog replaces package log: output is discarded unless VERIF_DEBUG is set, and
// Fatal* raise a typed panic instead of exiting the process, so that a
// `log.Fatalln("FATAL: in merger ...")` becomes a reported violation with a replay file.
package simlog

import (
	"fmt"
	"io"
	"log"
	"os"
	"sync"

	"verifsim/simrt"
)

const (
	Ldate         = log.Ldate
	Ltime         = log.Ltime
	Lmicroseconds = log.Lmicroseconds
	Llongfile     = log.Llongfile
	Lshortfile    = log.Lshortfile
	LUTC          = log.LUTC
	Lmsgprefix    = log.Lmsgprefix
	LstdFlags     = log.LstdFlags
)

type Logger = log.Logger

func New(out io.Writer, prefix string, flag int) *Logger { return log.New(out, prefix, flag) }
func Default() *Logger                                   { return log.Default() }

var debug = os.Getenv("VERIF_DEBUG") != ""

var mu sync.Mutex
var lines []string

// Lines returns and clears the captured log lines.
func Lines() []string {
	mu.Lock()
	defer mu.Unlock()
	l := lines
	lines = nil
	return l
}

func out(s string) {
	if simrt.Active() == nil {
		if debug {
			os.Stderr.WriteString(s)
		}
		return
	}
	mu.Lock()
	if len(lines) < 200 {
		lines = append(lines, s)
	}
	mu.Unlock()
	if debug {
		os.Stderr.WriteString(s)
	}
}

func SetOutput(w io.Writer)                {}
func SetPrefix(p string)                   {}
func SetFlags(f int)                       {}
func Flags() int                           { return 0 }
func Prefix() string                       { return "" }
func Writer() io.Writer                    { return io.Discard }
func Print(v ...any)                       { out(fmt.Sprint(v...) + "\n") }
func Printf(f string, v ...any)            { out(fmt.Sprintf(f, v...) + "\n") }
func Println(v ...any)                     { out(fmt.Sprintln(v...)) }
func Output(calldepth int, s string) error { out(s + "\n"); return nil }

func Fatal(v ...any)            { fatal(fmt.Sprint(v...)) }
func Fatalf(f string, v ...any) { fatal(fmt.Sprintf(f, v...)) }
func Fatalln(v ...any)          { fatal(fmt.Sprintln(v...)) }
func Panic(v ...any)            { s := fmt.Sprint(v...); out(s + "\n"); panic(s) }
func Panicf(f string, v ...any) { s := fmt.Sprintf(f, v...); out(s + "\n"); panic(s) }
func Panicln(v ...any)          { s := fmt.Sprintln(v...); out(s); panic(s) }

func fatal(s string) {
	out("FATAL " + s)
	panic(simrt.Fatal{Msg: s})
}
