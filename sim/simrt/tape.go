// Package simrt is the deterministic simulation runtime: one integer (VERIF_SEED)
// decides every scheduling decision, delay, fault and generated operation of a run.
package simrt

import (
	"encoding/json"
	"fmt"
	"hash/fnv"
	"os"
	"sort"
)

// Stream is one named stream of choices. In seed mode the values come from a
// SplitMix64 generator derived from (seed, name). In replay mode they come from an
// explicit list; when the list runs out every further choice is 0, which is by
// construction the simplest choice (no fault, lowest task, smallest value).
type Stream struct {
	name     string
	state    uint64
	explicit []uint64
	replay   bool
	pos      int
	rec      []uint64
}

func (s *Stream) raw() uint64 {
	s.state += 0x9e3779b97f4a7c15
	z := s.state
	z = (z ^ (z >> 30)) * 0xbf58476d1ce4e5b9
	z = (z ^ (z >> 27)) * 0x94d049bb133111eb
	return z ^ (z >> 31)
}

// Choose returns a value in [0,n). n<=1 returns 0 and still consumes an entry, so
// that the structure of the tape does not depend on n.
func (s *Stream) Choose(n int) int {
	var v uint64
	if s.replay {
		if s.pos < len(s.explicit) {
			v = s.explicit[s.pos]
		}
		s.pos++
	} else {
		v = s.raw()
	}
	if n <= 1 {
		v = 0
	} else {
		v %= uint64(n)
	}
	s.rec = append(s.rec, v)
	return int(v)
}

// Range returns a value in [lo,hi].
func (s *Stream) Range(lo, hi int) int {
	if hi <= lo {
		s.Choose(1)
		return lo
	}
	return lo + s.Choose(hi-lo+1)
}

// Coin is true with probability num/den. In replay with an exhausted tape it is false.
func (s *Stream) Coin(num, den int) bool {
	return s.Choose(den) >= den-num
}

// Uint64 returns 64 tape-chosen bits.
func (s *Stream) Uint64() uint64 {
	var v uint64
	if s.replay {
		if s.pos < len(s.explicit) {
			v = s.explicit[s.pos]
		}
		s.pos++
	} else {
		v = s.raw()
	}
	s.rec = append(s.rec, v)
	return v
}

// Pick returns an index chosen with the given integer weights.
func (s *Stream) Pick(weights ...int) int {
	tot := 0
	for _, w := range weights {
		tot += w
	}
	if tot <= 0 {
		s.Choose(1)
		return 0
	}
	v := s.Choose(tot)
	for i, w := range weights {
		if v < w {
			return i
		}
		v -= w
	}
	return len(weights) - 1
}

// Consumed is the number of entries drawn so far.
func (s *Stream) Consumed() int { return len(s.rec) }

// Tape is the set of streams of one run.
type Tape struct {
	Seed    uint64
	streams map[string]*Stream
	replay  map[string][]uint64 // non-nil in replay mode
}

// NewTape makes a seed-mode tape.
func NewTape(seed uint64) *Tape {
	return &Tape{Seed: seed, streams: map[string]*Stream{}}
}

// NewReplayTape makes a tape whose streams replay explicit lists.
func NewReplayTape(seed uint64, streams map[string][]uint64) *Tape {
	if streams == nil {
		streams = map[string][]uint64{}
	}
	return &Tape{Seed: seed, streams: map[string]*Stream{}, replay: streams}
}

// Stream returns the named stream, creating it on first use.
func (t *Tape) Stream(name string) *Stream {
	if s, ok := t.streams[name]; ok {
		return s
	}
	h := fnv.New64a()
	h.Write([]byte(name))
	s := &Stream{name: name, state: t.Seed*0x2545f4914f6cdd1d ^ h.Sum64()}
	if t.replay != nil {
		s.replay = true
		s.explicit = t.replay[name]
	}
	t.streams[name] = s
	return s
}

// Recorded returns the consumed prefix of every stream.
func (t *Tape) Recorded() map[string][]uint64 {
	m := map[string][]uint64{}
	for n, s := range t.streams {
		m[n] = append([]uint64(nil), s.rec...)
	}
	return m
}

// ReplayFile is what a failing run writes and what --replay reads.
type ReplayFile struct {
	Property  string              `json:"property"`
	Harness   string              `json:"harness"`
	Mode      string              `json:"mode"`
	Oracle    string              `json:"oracle"`
	Signature string              `json:"signature"`
	Message   string              `json:"message"`
	Seed      uint64              `json:"seed"`
	Tier      string              `json:"tier"`
	Minimised bool                `json:"minimised"`
	Streams   map[string][]uint64 `json:"streams"`
	Trace     []string            `json:"trace,omitempty"`
}

func (r *ReplayFile) Write(path string) error {
	b, err := json.Marshal(r)
	if err != nil {
		return err
	}
	return os.WriteFile(path, b, 0o644)
}

func ReadReplayFile(path string) (*ReplayFile, error) {
	b, err := os.ReadFile(path)
	if err != nil {
		return nil, err
	}
	var r ReplayFile
	if err := json.Unmarshal(b, &r); err != nil {
		return nil, fmt.Errorf("%s: %w", path, err)
	}
	return &r, nil
}

// StreamNames is the sorted list of stream names of a recorded tape.
func StreamNames(m map[string][]uint64) []string {
	var ns []string
	for n := range m {
		ns = append(ns, n)
	}
	sort.Strings(ns)
	return ns
}
