// Package simrate replaces golang.org/x/time/rate: the same token bucket (it wraps the
// real limiter for the arithmetic) but waiting is done with simrt.Sleep, so a task blocked
// on a limiter is under the scheduler's control like any other sleeping task.
package simrate

import (
	"context"
	"time"

	"golang.org/x/time/rate"

	"verifsim/simrt"
)

type Limit = rate.Limit

const Inf = rate.Inf

func Every(interval time.Duration) Limit { return rate.Every(interval) }

type Limiter struct{ l *rate.Limiter }

func NewLimiter(r Limit, b int) *Limiter { return &Limiter{rate.NewLimiter(r, b)} }

func (lim *Limiter) Wait(ctx context.Context) error { return lim.WaitN(ctx, 1) }

func (lim *Limiter) WaitN(ctx context.Context, n int) error {
	simrt.Yield()
	now := time.Now()
	r := lim.l.ReserveN(now, n)
	if !r.OK() {
		return context.DeadlineExceeded
	}
	if d := r.DelayFrom(now); d > 0 {
		simrt.Sleep(d)
	}
	return nil
}

func (lim *Limiter) Allow() bool                    { simrt.Yield(); return lim.l.Allow() }
func (lim *Limiter) AllowN(t time.Time, n int) bool { simrt.Yield(); return lim.l.AllowN(t, n) }
func (lim *Limiter) SetLimit(l Limit)               { simrt.Yield(); lim.l.SetLimit(l) }
func (lim *Limiter) SetBurst(b int)                 { simrt.Yield(); lim.l.SetBurst(b) }
func (lim *Limiter) Limit() Limit                   { return lim.l.Limit() }
func (lim *Limiter) Burst() int                     { return lim.l.Burst() }
func (lim *Limiter) Tokens() float64                { return lim.l.Tokens() }
