// Package simmaphash replaces hash/maphash with a hash that is a pure function of its
// input (no per-process seed), so hamt shapes, persist order and therefore the byte layout
// of the database file are functions of the tape. Bits can be lowered per run to force
// hash collisions.
package simmaphash

import (
	"fmt"
	"sync/atomic"
)

type Seed struct{ s uint64 }

var seedCtr atomic.Uint64

// MakeSeed returns distinct but deterministic seeds (in call order).
func MakeSeed() Seed { return Seed{seedCtr.Add(1) * 0x9e3779b97f4a7c15} }

// Bits is the number of significant hash bits (0 = all 64).
var Bits atomic.Int32

// Salt is mixed into every hash: a per-run value makes which keys collide a function of
// the tape instead of a constant of the build.
var Salt atomic.Uint64

// Slots, if 1..4, reduces the lowest five bits of every hash to that many bits and leaves
// the rest alone: a hash trie that consumes five bits per level then has few, crowded slots
// at the root and well filled child nodes below them.
var Slots atomic.Int32

func degrade(h uint64) uint64 {
	if k := Slots.Load(); k > 0 && k < 5 {
		h = h&^31 | h&(uint64(1)<<uint(k)-1)
	}
	if b := Bits.Load(); b > 0 && b < 64 {
		// keep the low and the high bits equal so that users of either end collide
		m := uint64(1)<<uint(b) - 1
		l := h & m
		return l | l<<(64-uint(b))
	}
	return h
}

func mix(h uint64) uint64 {
	h ^= h >> 32
	h *= 0xd6e8feb86659fd93
	h ^= h >> 32
	h *= 0xd6e8feb86659fd93
	h ^= h >> 32
	return h
}

func Bytes(seed Seed, b []byte) uint64 {
	h := seed.s ^ 0xcbf29ce484222325
	for _, c := range b {
		h = (h ^ uint64(c)) * 0x100000001b3
	}
	return degrade(mix(h ^ Salt.Load()))
}

func String(seed Seed, s string) uint64 {
	h := seed.s ^ 0xcbf29ce484222325
	for i := 0; i < len(s); i++ {
		h = (h ^ uint64(s[i])) * 0x100000001b3
	}
	return degrade(mix(h ^ Salt.Load()))
}

func Comparable[T comparable](seed Seed, v T) uint64 {
	return String(seed, fmt.Sprintf("%#v", v))
}

type Hash struct {
	seed Seed
	init bool
	h    uint64
}

func (h *Hash) start() {
	if !h.init {
		if h.seed.s == 0 {
			h.seed = MakeSeed()
		}
		h.h = h.seed.s ^ 0xcbf29ce484222325
		h.init = true
	}
}
func (h *Hash) SetSeed(seed Seed) { h.seed = seed; h.init = false; h.start() }
func (h *Hash) Seed() Seed        { h.start(); return h.seed }
func (h *Hash) Reset()            { h.init = false; h.start() }
func (h *Hash) Write(b []byte) (int, error) {
	h.start()
	for _, c := range b {
		h.h = (h.h ^ uint64(c)) * 0x100000001b3
	}
	return len(b), nil
}
func (h *Hash) WriteString(s string) (int, error) {
	h.start()
	for i := 0; i < len(s); i++ {
		h.h = (h.h ^ uint64(s[i])) * 0x100000001b3
	}
	return len(s), nil
}
func (h *Hash) WriteByte(b byte) error {
	h.start()
	h.h = (h.h ^ uint64(b)) * 0x100000001b3
	return nil
}
func (h *Hash) Sum64() uint64 { h.start(); return degrade(mix(h.h ^ Salt.Load())) }
func (h *Hash) Sum(b []byte) []byte {
	x := h.Sum64()
	return append(b, byte(x>>56), byte(x>>48), byte(x>>40), byte(x>>32), byte(x>>24), byte(x>>16), byte(x>>8), byte(x))
}
func (h *Hash) Size() int      { return 8 }
func (h *Hash) BlockSize() int { return 128 }

func WriteComparable[T comparable](h *Hash, x T) { h.WriteString(fmt.Sprintf("%#v", x)) }
