// Package simrand replaces math/rand/v2: the package-level functions draw from the run's
// "app" tape stream while a simulation is active, so that e.g. the conflict checker's
// abort coin is a recorded choice. Explicitly seeded generators are unchanged.
package simrand

import (
	"math/rand/v2"

	"verifsim/simrt"
)

type (
	Rand    = rand.Rand
	Source  = rand.Source
	PCG     = rand.PCG
	ChaCha8 = rand.ChaCha8
	Zipf    = rand.Zipf
)

func New(src Source) *Rand                             { return rand.New(src) }
func NewPCG(s1, s2 uint64) *PCG                        { return rand.NewPCG(s1, s2) }
func NewChaCha8(seed [32]byte) *ChaCha8                { return rand.NewChaCha8(seed) }
func NewZipf(r *Rand, s, v float64, imax uint64) *Zipf { return rand.NewZipf(r, s, v, imax) }

func app() *simrt.Stream {
	if s := simrt.Active(); s != nil && !s.Inspecting() && !s.Terminating() {
		return s.App
	}
	return nil
}

func Uint64() uint64 {
	if a := app(); a != nil {
		return a.Uint64()
	}
	return rand.Uint64()
}
func Uint32() uint32 { return uint32(Uint64() >> 32) }
func Int64() int64   { return int64(Uint64() &^ (1 << 63)) }
func Int32() int32   { return int32(Uint64() >> 33) }
func Int() int       { return int(uint(Uint64()) << 1 >> 1) }

func Uint64N(n uint64) uint64 {
	if n == 0 {
		panic("invalid argument to Uint64N")
	}
	if a := app(); a != nil {
		if n <= 1<<62 {
			return uint64(a.Choose(int(n)))
		}
		return a.Uint64() % n
	}
	return rand.Uint64N(n)
}
func Uint32N(n uint32) uint32 { return uint32(Uint64N(uint64(n))) }
func Int64N(n int64) int64 {
	if n <= 0 {
		panic("invalid argument to Int64N")
	}
	return int64(Uint64N(uint64(n)))
}
func Int32N(n int32) int32 {
	if n <= 0 {
		panic("invalid argument to Int32N")
	}
	return int32(Uint64N(uint64(n)))
}
func IntN(n int) int {
	if n <= 0 {
		panic("invalid argument to IntN")
	}
	return int(Uint64N(uint64(n)))
}
func UintN(n uint) uint { return uint(Uint64N(uint64(n))) }

func N[Int interface {
	~int | ~int8 | ~int16 | ~int32 | ~int64 | ~uint | ~uint8 | ~uint16 | ~uint32 | ~uint64 | ~uintptr
}](n Int) Int {
	if n <= 0 {
		panic("invalid argument to N")
	}
	return Int(Uint64N(uint64(n)))
}

func Float64() float64 { return float64(Uint64()<<11>>11) / (1 << 53) }
func Float32() float32 { return float32(Uint32()<<8>>8) / (1 << 24) }

func Perm(n int) []int {
	p := make([]int, n)
	for i := range p {
		p[i] = i
	}
	Shuffle(n, func(i, j int) { p[i], p[j] = p[j], p[i] })
	return p
}

func Shuffle(n int, swap func(i, j int)) {
	for i := n - 1; i > 0; i-- {
		j := int(Uint64N(uint64(i + 1)))
		swap(i, j)
	}
}

func NormFloat64() float64 { return rand.NormFloat64() }
func ExpFloat64() float64  { return rand.ExpFloat64() }
