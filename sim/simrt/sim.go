package simrt

import (
	"fmt"
	"hash/fnv"
	"os"
	"runtime"
	"sort"
	"strings"
	"sync"
	"sync/atomic"
	"testing"
	"testing/synctest"
	"time"
)

// Task states.
const (
	stNew     int32 = iota
	stRunning       // released by the scheduler (may be blocked in a real channel op or timer)
	stParked        // parked at a yield: runnable
	stBlocked       // blocked on a simulated primitive (mutex, cond, waitgroup, once)
	stDone
)

// Task is a goroutine owned by the scheduler.
type Task struct {
	ID      int
	Name    string
	gid     uint64
	wake    chan struct{}
	state   atomic.Int32
	prio    int
	exiting bool
	System  bool // started by instrumented (gSuneido) code rather than by the harness
	Steps   int64
	blockOn string
	// stall fault: after armAt more lock / condition / wait group operations of this task it
	// is not scheduled for armDur steps (unless nothing else can run)
	syncSteps    int64
	armAt        int64
	armDur       int64
	suspendUntil int64
}

func (t *Task) String() string { return fmt.Sprintf("T%d(%s)", t.ID, t.Name) }

// Scheduling policies.
const (
	PolicyRandom   = iota // uniform pick, short random budgets
	PolicyPCT             // priorities with d change points, run to block
	PolicyRunBlock        // run to block with rare preemptions
	PolicyStarve          // random, but one victim task is starved for stretches
	PolicyFair            // round robin, fixed budgets (used for the final phase)
	PolicyPCTComm         // like PCT, but the change points are counted in lock / condition / wait group operations
	NPolicies      = 4    // number of tape-selectable policies
)

var policyNames = []string{"random", "pct", "runblock", "starve", "fair", "pctcomm"}

// Config of one run.
type Config struct {
	MaxSteps     int64         // yields before the adversarial phase ends
	FairSteps    int64         // additional yields under the fair policy before a stall is declared
	MaxSimTime   time.Duration // simulated time cap for the adversarial phase
	FairSimTime  time.Duration // additional simulated time under the fair policy
	AdvanceNum   int           // probability AdvanceNum/AdvanceDen of advancing time at a scheduling decision although tasks are runnable
	AdvanceDen   int
	Policy       int // -1: choose from the tape
	PCTDepth     int
	TraceCap     int
	QuantaMs     []int // candidate time quanta (ms)
	NoTimeFaults bool
	MapRotate    bool // rotate ordered map iteration by tape choices
}

// Failure describes why a run failed.
type Failure struct {
	Oracle  string // short stable id, e.g. "C17/fifo"
	Sig     string // signature for known findings (defaults to Oracle)
	Message string
	Step    int64
	Machine bool // machinery error (exit 2), not a property violation
}

func (f *Failure) Error() string { return f.Oracle + ": " + f.Message }

// Sim is one simulated execution.
type Sim struct {
	Tape  *Tape
	sched *Stream
	App   *Stream // randomness consumed by the code under test
	cfg   Config

	mu    sync.Mutex // guards tasks, fail, trace against the short concurrent windows after channel hand-offs
	tasks []*Task
	gids  sync.Map

	cur        *Task
	budget     int64
	inspecting bool
	schedGid   uint64
	kick       chan struct{}

	Steps    int64 // yields executed by tasks
	Switches int64 // scheduling decisions
	Advances int64
	policy   int
	fair     bool
	changes  []int64 // PCT change points (in Steps)
	cchanges []int64 // PCTComm change points (in SyncSteps)
	demote   bool    // a PCTComm change point has been reached: demote the task at this yield
	stallNow bool    // a stall fault starts at this yield: park the task whatever the budget
	Stalls   int64   // stall faults that fired
	// SyncSteps counts the yields that precede lock, condition and wait group operations
	SyncSteps int64
	victim    int
	rr        int

	terminating atomic.Bool
	fail        *Failure
	mainDone    atomic.Bool
	stepHook    func()
	yieldHook   func()
	start       time.Time
	skew        atomic.Int64
	digest      uint64
	trace       []string
	Stats       map[string]int64
	Stalled     bool
	panics      []string
	simElapsed  time.Duration
	mapRot      bool
	abandoned   string
	// Context, if set, is appended to failures raised by the simulator itself (task panic,
	// fatal, stall) so that they carry the harness's history like oracle failures do.
	Context func() string
}

// Abandon ends the run without a failure (e.g. an oracle that belongs to another
// property fired, so that the rest of the run would be meaningless).
func (s *Sim) Abandon(reason string) {
	s.mu.Lock()
	if s.abandoned == "" {
		s.abandoned = reason
	}
	s.mu.Unlock()
}

// Abandoned reports whether Abandon was called.
func (s *Sim) Abandoned() bool {
	s.mu.Lock()
	defer s.mu.Unlock()
	return s.abandoned != ""
}

// Over reports whether the run is finished for the workload: failed, abandoned or terminating.
func (s *Sim) Over() bool {
	return s.Failed() != nil || s.Abandoned() || s.terminating.Load()
}

var active atomic.Pointer[Sim]

// Active returns the running simulation or nil.
func Active() *Sim { return active.Load() }

func gid() uint64 {
	var buf [64]byte
	n := runtime.Stack(buf[:], false)
	// "goroutine 123 ["
	var id uint64
	for _, c := range buf[10:n] {
		if c < '0' || c > '9' {
			break
		}
		id = id*10 + uint64(c-'0')
	}
	return id
}

func (s *Sim) self() *Task {
	if v, ok := s.gids.Load(gid()); ok {
		return v.(*Task)
	}
	return nil
}

// Self returns the calling task (nil for the inspector or a foreign goroutine).
func (s *Sim) Self() *Task { return s.self() }

// Inspecting reports whether oracle code is running (sim primitives do not yield).
func (s *Sim) Inspecting() bool { return s.inspecting }

// Terminating reports whether the run is being torn down.
func (s *Sim) Terminating() bool { return s.terminating.Load() }

// Fail records the first failure of the run and starts termination.
func (s *Sim) Fail(oracle, sig, format string, args ...any) {
	s.mu.Lock()
	if s.fail == nil {
		if sig == "" {
			sig = oracle
		}
		msg := fmt.Sprintf(format, args...)
		if s.Context != nil && (oracle == "task-panic" || oracle == "fatal" || oracle == "stall") {
			func() {
				defer func() { recover() }()
				msg += "\n" + s.Context()
			}()
		}
		s.fail = &Failure{Oracle: oracle, Sig: sig, Message: msg, Step: s.Steps}
	}
	s.mu.Unlock()
}

// Machine records a machinery error (reported with exit status 2, never as a violation).
func (s *Sim) Machine(format string, args ...any) {
	s.mu.Lock()
	if s.fail == nil || !s.fail.Machine {
		s.fail = &Failure{Oracle: "machinery", Sig: "machinery", Message: fmt.Sprintf(format, args...), Step: s.Steps, Machine: true}
	}
	s.mu.Unlock()
}

// Failed returns the recorded failure, if any.
func (s *Sim) Failed() *Failure {
	s.mu.Lock()
	defer s.mu.Unlock()
	return s.fail
}

// Tracef appends a line to the human-readable trace (bounded). It never draws from the tape.
func (s *Sim) Tracef(format string, args ...any) {
	s.mu.Lock()
	if s.cfg.TraceCap > 0 {
		if len(s.trace) >= s.cfg.TraceCap {
			copy(s.trace, s.trace[len(s.trace)/2:])
			s.trace = s.trace[:len(s.trace)-len(s.trace)/2]
		}
		s.trace = append(s.trace, fmt.Sprintf("[%d %v] ", s.Steps, s.Elapsed())+fmt.Sprintf(format, args...))
	}
	s.mu.Unlock()
}

// Note mixes an event into the run digest (used by the determinism self-test) and the trace.
func (s *Sim) Note(format string, args ...any) {
	msg := fmt.Sprintf(format, args...)
	s.mu.Lock()
	h := fnv.New64a()
	var b [8]byte
	for i := range b {
		b[i] = byte(s.digest >> (8 * i))
	}
	h.Write(b[:])
	h.Write([]byte(msg))
	s.digest = h.Sum64()
	s.mu.Unlock()
	if schedLog != nil {
		fmt.Fprintf(schedLog, "%d note %s\n", s.Steps, msg)
	}
	s.Tracef("%s", msg)
}

// Digest is a hash of every scheduling decision and noted event so far.
func (s *Sim) Digest() uint64 { return s.digest }

// Trace returns the retained trace lines.
func (s *Sim) Trace() []string { return append([]string(nil), s.trace...) }

// Count increments a named statistic (fault fired, probe hit ...).
func (s *Sim) Count(name string, n int64) {
	s.mu.Lock()
	s.Stats[name] += n
	s.mu.Unlock()
}

// Elapsed is the simulated time since the start of the run.
func (s *Sim) Elapsed() time.Duration { return time.Since(s.start) }

// SetSkew sets the offset added to the bubble clock by Now().
func (s *Sim) SetSkew(d time.Duration) { s.skew.Store(int64(d)) }

// Skew returns the current clock skew.
func (s *Sim) Skew() time.Duration { return time.Duration(s.skew.Load()) }

// OnStep registers the invariant hook, run by the scheduler between steps (inspector mode).
func (s *Sim) OnStep(f func()) { s.stepHook = f }

// OnYield registers a hook run at every soft yield of a task, before the operation that
// follows the yield, in inspector mode. It must be cheap.
func (s *Sim) OnYield(f func()) { s.yieldHook = f }

// Sched returns the scheduling stream (for harness-level fault decisions made in task context).
func (s *Sim) Sched() *Stream { return s.sched }

// PolicyName names the policy of this run.
func (s *Sim) PolicyName() string {
	if s.fair {
		return policyNames[s.policy] + "+fair"
	}
	return policyNames[s.policy]
}

// Inspect runs f in inspector mode on the calling goroutine.
func (s *Sim) Inspect(f func()) {
	old := s.inspecting
	s.inspecting = true
	defer func() { s.inspecting = old }()
	f()
}

// ---------------------------------------------------------------------------------------
// yields

// Yield is the soft yield placed before every synchronisation operation.
func Yield() {
	if s := active.Load(); s != nil {
		s.Yield()
	}
}

// YieldHard is the yield placed after every operation that can block or wake another
// goroutine (channel operations, sleeps). It always parks and never draws from the tape,
// because the waker and the woken goroutine may both be executing it.
func YieldHard() {
	if s := active.Load(); s != nil {
		s.YieldHard()
	}
}

func (s *Sim) Yield() {
	if s.inspecting {
		return
	}
	if s.terminating.Load() {
		s.exitIfTask()
		return
	}
	s.Steps++
	if yieldTrace && schedLog != nil {
		var pcs [6]uintptr
		n := runtime.Callers(2, pcs[:])
		fr := runtime.CallersFrames(pcs[:n])
		var sb strings.Builder
		for {
			f, more := fr.Next()
			if !strings.Contains(f.Function, "simrt") {
				fmt.Fprintf(&sb, " %s:%d", f.Function[strings.LastIndex(f.Function, "/")+1:], f.Line)
			}
			if !more {
				break
			}
		}
		fmt.Fprintf(schedLog, "Y %d%s\n", s.Steps, sb.String())
	}
	if s.yieldHook != nil {
		s.inspecting = true
		s.yieldHook()
		s.inspecting = false
	}
	if s.budget > 0 {
		s.budget--
		if !s.demote && !s.stallNow && (len(s.changes) == 0 || s.Steps < s.changes[0]) {
			return
		}
	}
	s.stallNow = false
	t := s.self()
	if t == nil {
		s.demote = false
		if gid() == s.schedGid {
			return
		}
		s.foreign("Yield")
		return
	}
	if t != s.cur {
		s.Machine("yield from %v while %v is the running task", t, s.cur)
	}
	if len(s.changes) > 0 && s.Steps >= s.changes[0] {
		s.changes = s.changes[1:]
		t.prio = -int(s.Steps) // lower than every initial priority, later changes lower still
	}
	if s.demote {
		s.demote = false
		t.prio = -int(s.Steps)
	}
	t.Steps++
	s.park(t, stParked)
}

// YieldSync is the soft yield placed before lock, condition variable and wait group
// operations (the points where tasks communicate). Under the pctcomm policy the priority
// change points are counted in these.
func (s *Sim) YieldSync() {
	if !s.inspecting && !s.terminating.Load() {
		s.SyncSteps++
		if len(s.cchanges) > 0 && s.SyncSteps >= s.cchanges[0] {
			s.cchanges = s.cchanges[1:]
			s.demote = true
		}
		if t := s.cur; t != nil && t.armAt > 0 {
			t.syncSteps++
			if t.syncSteps >= t.armAt {
				t.armAt = 0
				t.suspendUntil = s.Steps + t.armDur
				s.stallNow = true
				s.Stalls++
				s.Count("fault.task-stall", 1)
				if stallTrace {
					var pcs [12]uintptr
					n := runtime.Callers(2, pcs[:])
					fr := runtime.CallersFrames(pcs[:n])
					var sb strings.Builder
					for {
						f, more := fr.Next()
						if !strings.Contains(f.Function, "simrt") && !strings.Contains(f.Function, "simsync") {
							fmt.Fprintf(&sb, "<%s:%d", f.Function[strings.LastIndex(f.Function, "/")+1:], f.Line)
						}
						if !more {
							break
						}
					}
					s.Count("stall-at:"+sb.String(), 1)
				}
			}
		}
	}
	s.Yield()
}

// StallAfter arms a stall fault for the calling task: after k more lock / condition / wait
// group operations (i.e. somewhere inside the operation it is about to perform) it stops
// being scheduled for dur steps, unless nothing else can run. The caller draws k and dur
// from the tape.
func (s *Sim) StallAfter(k, dur int64) {
	if t := s.self(); t != nil && !s.fair {
		t.syncSteps = 0
		t.armAt = k
		t.armDur = dur
	}
}

func (s *Sim) YieldHard() {
	if s.inspecting && gid() == s.schedGid {
		return
	}
	t := s.self()
	if t == nil {
		if gid() == s.schedGid {
			return
		}
		s.foreign("YieldHard")
		return
	}
	if s.terminating.Load() {
		s.exitTask(t)
		return
	}
	t.Steps++
	s.park(t, stParked)
}

func (s *Sim) foreign(what string) {
	// A goroutine that is neither a task nor the scheduler touched a sim primitive while a
	// run is active: it would be an unscheduled source of nondeterminism.
	buf := make([]byte, 4096)
	buf = buf[:runtime.Stack(buf, false)]
	s.Machine("%s from a goroutine that is not a task:\n%s", what, buf)
}

func (s *Sim) exitIfTask() {
	if t := s.self(); t != nil {
		s.exitTask(t)
	}
}

func (s *Sim) exitTask(t *Task) {
	if !t.exiting {
		t.exiting = true
		runtime.Goexit()
	}
}

func (s *Sim) park(t *Task, st int32) {
	t.state.Store(st)
	select {
	case s.kick <- struct{}{}:
	default:
	}
	<-t.wake
	t.state.Store(stRunning)
	if s.terminating.Load() {
		s.exitTask(t)
	}
}

// Block parks the calling task as blocked on a simulated primitive; it returns when
// another task has called Unblock for it and the scheduler has released it.
// In inspector mode it is a machinery error: the oracle would wait for a parked task.
func (s *Sim) Block(waiters *[]*Task, what string) {
	if s.inspecting {
		panic("simrt: inspector would block on " + what)
	}
	t := s.self()
	if t == nil {
		s.foreign("Block(" + what + ")")
		// cannot continue meaningfully: spin-wait would be nondeterministic
		panic("simrt: Block from non-task goroutine")
	}
	if s.terminating.Load() {
		s.exitTask(t)
		return
	}
	*waiters = append(*waiters, t)
	t.blockOn = what
	t.Steps++
	s.park(t, stBlocked)
	t.blockOn = ""
}

// Unblock makes every task in the list runnable and empties the list.
func (s *Sim) Unblock(waiters *[]*Task) {
	for _, t := range *waiters {
		if t.state.Load() == stBlocked {
			t.state.Store(stParked)
		}
	}
	*waiters = (*waiters)[:0]
}

// UnblockOne makes one tape-chosen task of the list runnable.
func (s *Sim) UnblockOne(waiters *[]*Task) {
	n := len(*waiters)
	if n == 0 {
		return
	}
	i := 0
	if n > 1 && !s.inspecting && !s.terminating.Load() {
		i = s.sched.Choose(n)
	}
	t := (*waiters)[i]
	*waiters = append((*waiters)[:i], (*waiters)[i+1:]...)
	if t.state.Load() == stBlocked {
		t.state.Store(stParked)
	}
}

// ---------------------------------------------------------------------------------------
// tasks

// Go starts f as a scheduled task. With no active simulation it is a plain goroutine.
func Go(f func()) {
	s := active.Load()
	if s == nil {
		go f()
		return
	}
	s.spawn("", true, f)
}

// GoNamed starts a named harness task.
func (s *Sim) GoNamed(name string, f func()) *Task { return s.spawn(name, false, f) }

func (s *Sim) spawn(name string, system bool, f func()) *Task {
	if s.terminating.Load() {
		// do not start new work during tear-down
		return nil
	}
	if !s.inspecting {
		s.Yield()
	}
	t := &Task{wake: make(chan struct{}), System: system}
	s.mu.Lock()
	t.ID = len(s.tasks)
	if name == "" {
		name = callerName()
	}
	t.Name = name
	t.prio = 1 + s.sched.Choose(1000)
	s.tasks = append(s.tasks, t)
	s.mu.Unlock()
	t.state.Store(stNew)
	go s.taskMain(t, f)
	return t
}

func callerName() string {
	pc := make([]uintptr, 8)
	n := runtime.Callers(3, pc)
	fr := runtime.CallersFrames(pc[:n])
	for {
		f, more := fr.Next()
		if !strings.Contains(f.Function, "simrt") {
			fn := f.Function
			if i := strings.LastIndex(fn, "/"); i >= 0 {
				fn = fn[i+1:]
			}
			return fmt.Sprintf("%s:%d", fn, f.Line)
		}
		if !more {
			return "?"
		}
	}
}

func (s *Sim) taskMain(t *Task, f func()) {
	t.gid = gid()
	s.gids.Store(t.gid, t)
	defer func() {
		if r := recover(); r != nil {
			s.taskPanicked(t, r)
		}
		t.state.Store(stDone)
		s.gids.Delete(t.gid)
		select {
		case s.kick <- struct{}{}:
		default:
		}
	}()
	// start parked
	t.state.Store(stParked)
	select {
	case s.kick <- struct{}{}:
	default:
	}
	<-t.wake
	t.state.Store(stRunning)
	if s.terminating.Load() {
		return
	}
	f()
}

// Fatal is the typed panic raised by simlog.Fatal* and core.Fatal replacements.
type Fatal struct{ Msg string }

func (f Fatal) Error() string { return "FATAL: " + f.Msg }

func (s *Sim) taskPanicked(t *Task, r any) {
	buf := make([]byte, 16384)
	buf = buf[:runtime.Stack(buf, false)]
	msg := fmt.Sprint(r)
	s.mu.Lock()
	s.panics = append(s.panics, fmt.Sprintf("%v: %s", t, msg))
	s.mu.Unlock()
	if s.terminating.Load() {
		return
	}
	if _, ok := r.(Fatal); ok {
		s.Fail("fatal", "fatal/"+firstLine(msg), "task %v: %s\n%s", t, msg, trimStack(buf))
		return
	}
	s.Fail("task-panic", "task-panic/"+firstLine(msg), "task %v panicked: %s\n%s", t, msg, trimStack(buf))
}

func firstLine(s string) string {
	if i := strings.IndexByte(s, '\n'); i >= 0 {
		s = s[:i]
	}
	if len(s) > 120 {
		s = s[:120]
	}
	return s
}

func trimStack(b []byte) string {
	lines := strings.Split(string(b), "\n")
	var out []string
	for _, l := range lines {
		if strings.Contains(l, "simrt.(*Sim).taskPanicked") || strings.Contains(l, "runtime/panic.go") {
			continue
		}
		out = append(out, l)
		if len(out) > 60 {
			break
		}
	}
	return strings.Join(out, "\n")
}

// Tasks returns a snapshot of the task list.
func (s *Sim) Tasks() []*Task {
	s.mu.Lock()
	defer s.mu.Unlock()
	return append([]*Task(nil), s.tasks...)
}

// ---------------------------------------------------------------------------------------
// scheduler

// Result of one run.
type Result struct {
	Failure   *Failure
	Steps     int64
	Switches  int64
	Advances  int64
	SimTime   time.Duration
	Tasks     int
	Policy    string
	Digest    uint64
	Stats     map[string]int64
	Trace     []string
	Streams   map[string][]uint64
	Stalled   bool
	Panics    []string
	Abandoned string
}

// DefaultConfig returns the usual limits.
func DefaultConfig() Config {
	return Config{
		MaxSteps: 400_000, FairSteps: 400_000,
		MaxSimTime: 30 * time.Minute, FairSimTime: 30 * time.Minute,
		AdvanceNum: 1, AdvanceDen: 200, Policy: -1, PCTDepth: 3, TraceCap: 400,
		QuantaMs: []int{1, 3, 10, 50, 200, 1000, 1000, 3000, 10000, 30000, 60000},
	}
}

// Run executes main as task 0 of a fresh simulation inside a synctest bubble and returns
// when main has returned, a failure was recorded, or a stall was declared.
func Run(t *testing.T, tape *Tape, cfg Config, main func(s *Sim)) (res *Result) {
	s := &Sim{Tape: tape, cfg: cfg, Stats: map[string]int64{}}
	s.sched = tape.Stream("sched")
	s.App = tape.Stream("app")
	s.mapRot = cfg.MapRotate
	if !active.CompareAndSwap(nil, s) {
		panic("simrt: a simulation is already active")
	}
	// active stays set until the bubble has ended: goroutines woken by fake timers while
	// the bubble drains must still see a (terminating) simulation and exit.
	func() {
		defer func() {
			if r := recover(); r != nil {
				msg := fmt.Sprint(r)
				if !strings.Contains(msg, "deadlock: main bubble goroutine has exited") {
					s.Machine("scheduler panic: %v\n%s", r, stack())
				}
			}
		}()
		synctest.Test(t, func(t *testing.T) {
			s.kick = make(chan struct{}, 1) // made inside the bubble: blocking on it must be durable
			s.start = time.Now()
			s.schedGid = gid()
			s.choosePolicy()
			s.inspecting = true
			s.spawn("main", false, func() {
				defer s.mainDone.Store(true)
				main(s)
			})
			s.inspecting = false
			s.loop()
			s.terminate()
		})
	}()
	active.CompareAndSwap(s, nil)
	return &Result{Failure: s.fail, Steps: s.Steps, Switches: s.Switches, Advances: s.Advances,
		SimTime: s.simElapsed, Tasks: len(s.tasks), Policy: s.PolicyName(), Digest: s.digest,
		Stats: s.Stats, Trace: s.trace, Streams: tape.Recorded(), Stalled: s.Stalled, Panics: s.panics, Abandoned: s.abandoned}
}

func stack() string {
	buf := make([]byte, 16384)
	return string(buf[:runtime.Stack(buf, false)])
}

func (s *Sim) choosePolicy() {
	p := s.cfg.Policy
	if p < 0 {
		p = s.sched.Pick(3, 2, 3, 1, 0, 3)
	}
	s.policy = p
	if p == PolicyPCTComm {
		d := s.cfg.PCTDepth
		if d <= 0 {
			d = 3
		}
		for n := 1 + s.sched.Choose(d); n > 0; n-- {
			h := []int{20, 80, 320, 1280}[s.sched.Choose(4)]
			s.cchanges = append(s.cchanges, int64(1+s.sched.Choose(h)))
		}
		sort.Slice(s.cchanges, func(i, j int) bool { return s.cchanges[i] < s.cchanges[j] })
	}
	if p == PolicyPCT {
		d := s.cfg.PCTDepth
		if d <= 0 {
			d = 3
		}
		n := 1 + s.sched.Choose(d)
		horizon := int(s.cfg.MaxSteps / 20)
		if horizon < 100 {
			horizon = 100
		}
		for i := 0; i < n; i++ {
			// biased towards early steps, where the workload is
			h := horizon
			for k := s.sched.Choose(4); k > 0; k-- {
				h /= 4
			}
			if h < 10 {
				h = 10
			}
			s.changes = append(s.changes, int64(1+s.sched.Choose(h)))
		}
		sort.Slice(s.changes, func(i, j int) bool { return s.changes[i] < s.changes[j] })
	}
	s.victim = -1
}

func (s *Sim) runnable() []*Task {
	var r []*Task
	for _, t := range s.tasks {
		if t.state.Load() == stParked {
			r = append(r, t)
		}
	}
	return r
}

func (s *Sim) allDone() bool {
	for _, t := range s.tasks {
		if t.state.Load() != stDone {
			return false
		}
	}
	return true
}

func (s *Sim) loop() {
	for {
		synctest.Wait()
		if s.Failed() != nil || s.mainDone.Load() || s.Abandoned() {
			return
		}
		if s.stepHook != nil {
			s.inspecting = true
			s.stepHook()
			s.inspecting = false
			if s.Failed() != nil {
				return
			}
		}
		if !s.fair && (s.Steps > s.cfg.MaxSteps || s.Elapsed() > s.cfg.MaxSimTime) {
			// end of the adversarial phase: fair scheduling, no time faults
			s.fair = true
			s.changes = nil
			s.cchanges = nil
			s.Note("fair-phase")
		}
		if s.fair && (s.Steps > s.cfg.MaxSteps+s.cfg.FairSteps || s.Elapsed() > s.cfg.MaxSimTime+s.cfg.FairSimTime) {
			s.Stalled = true
			s.Fail("stall", "stall", "workload did not finish within %d+%d steps / %v simulated; tasks:\n%s",
				s.cfg.MaxSteps, s.cfg.FairSteps, s.Elapsed(), s.describeTasks())
			return
		}
		run := s.runnable()
		if len(run) == 0 {
			if s.allDone() {
				return
			}
			s.advance(true)
			continue
		}
		if !s.fair && !s.cfg.NoTimeFaults && s.cfg.AdvanceNum > 0 && s.sched.Coin(s.cfg.AdvanceNum, s.cfg.AdvanceDen) {
			s.advance(false)
			continue
		}
		if !s.fair {
			// stalled tasks wait, unless nothing else can run
			var awake []*Task
			for _, t := range run {
				if t.suspendUntil <= s.Steps {
					awake = append(awake, t)
				}
			}
			if len(awake) > 0 && len(awake) < len(run) {
				run = awake
			}
		}
		t := s.pick(run)
		s.Switches++
		s.noteSwitch(t)
		s.cur = t
		t.wake <- struct{}{}
	}
}

var schedLog *os.File
var yieldTrace = os.Getenv("VERIF_YIELDTRACE") != ""
var stallTrace = os.Getenv("VERIF_STALLTRACE") != ""

func init() {
	if p := os.Getenv("VERIF_SCHEDLOG"); p != "" {
		schedLog, _ = os.Create(p)
	}
}

func (s *Sim) noteSwitch(t *Task) {
	if schedLog != nil {
		fmt.Fprintf(schedLog, "%d %d %s budget=%d\n", s.Steps, t.ID, t.Name, s.budget)
	}
	s.digest = (s.digest ^ uint64(t.ID+1)) * 0x100000001b3
	s.digest = (s.digest ^ uint64(s.Steps)) * 0x100000001b3
}

func (s *Sim) describeTasks() string {
	var sb strings.Builder
	for _, t := range s.tasks {
		st := t.state.Load()
		if st == stDone {
			continue
		}
		fmt.Fprintf(&sb, "  %v state=%s %s\n", t, []string{"new", "running/blocked-in-channel-or-timer", "parked", "blocked-on-sim", "done"}[st], t.blockOn)
	}
	return sb.String()
}

func (s *Sim) pick(run []*Task) *Task {
	policy := s.policy
	if s.fair {
		policy = PolicyFair
	}
	switch policy {
	case PolicyPCT, PolicyPCTComm:
		best := run[0]
		for _, t := range run[1:] {
			if t.prio > best.prio {
				best = t
			}
		}
		s.budget = 1 << 40
		return best
	case PolicyRunBlock:
		// mostly keep running the current task; preempt rarely
		s.budget = 1 << 40
		if s.sched.Coin(1, 8) {
			s.budget = int64(1 + s.sched.Choose(200))
		}
		for _, t := range run {
			if t == s.cur && !s.sched.Coin(1, 10) {
				return t
			}
		}
		return run[s.sched.Choose(len(run))]
	case PolicyStarve:
		if s.victim < 0 || s.sched.Coin(1, 50) {
			s.victim = s.sched.Choose(len(s.tasks))
		}
		s.budget = int64(s.sched.Choose(40))
		if len(run) > 1 {
			var r2 []*Task
			for _, t := range run {
				if t.ID != s.victim {
					r2 = append(r2, t)
				}
			}
			run = r2
		}
		return run[s.sched.Choose(len(run))]
	case PolicyFair:
		s.budget = 64
		s.rr++
		// next runnable task after the previous one in id order
		for _, t := range run {
			if t.ID >= s.rr%(len(s.tasks)+1) {
				s.rr = t.ID
				return t
			}
		}
		s.rr = run[0].ID
		return run[0]
	default:
		s.budget = int64(s.sched.Pick(4, 2, 1) * (1 + s.sched.Choose(12)))
		return run[s.sched.Choose(len(run))]
	}
}

// advance moves the simulated clock. forced: nothing is runnable, so sleep until some
// task parks (a timer fired) or the quantum ends. Otherwise (a time fault: slow node /
// stall) sleep the whole quantum although tasks are runnable.
func (s *Sim) advance(forced bool) {
	s.Advances++
	q := time.Duration(s.cfg.QuantaMs[len(s.cfg.QuantaMs)-1]) * time.Millisecond
	if !s.fair {
		q = time.Duration(s.cfg.QuantaMs[s.sched.Choose(len(s.cfg.QuantaMs))]) * time.Millisecond
	}
	if !forced {
		s.Count("fault.time-advance-while-runnable", 1)
		time.Sleep(q)
		return
	}
	select {
	case <-s.kick:
	default:
	}
	tm := time.NewTimer(q)
	select {
	case <-s.kick:
		tm.Stop()
	case <-tm.C:
	}
}

func (s *Sim) terminate() {
	s.simElapsed = s.Elapsed()
	s.terminating.Store(true)
	s.inspecting = false
	// release every task one at a time so that deferred functions run serially
	for round := 0; round < 3; round++ {
		for _, t := range s.Tasks() {
			st := t.state.Load()
			if st == stParked || st == stBlocked {
				s.cur = t
				t.wake <- struct{}{}
				synctest.Wait()
			}
		}
		synctest.Wait()
	}
}
