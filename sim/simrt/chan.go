package simrt

import (
	"cmp"
	"iter"
	"os"
	"reflect"
	"slices"
	"strconv"
	"time"
)

// Channel helpers. Channels stay real Go channels; every operation is preceded by a soft
// yield (a scheduling point) and followed by a hard yield (both the waker and the woken
// goroutine park before touching shared state).

func Send[T any](ch chan<- T, v T) {
	Yield()
	ch <- v
	YieldHard()
}

func Recv[T any](ch <-chan T) T {
	Yield()
	v := <-ch
	YieldHard()
	return v
}

func Recv2[T any](ch <-chan T) (T, bool) {
	Yield()
	v, ok := <-ch
	YieldHard()
	return v, ok
}

func Close[T any](ch chan<- T) {
	Yield()
	close(ch)
	YieldHard()
}

// RangeChan replaces `for v := range ch`.
func RangeChan[T any](ch <-chan T) iter.Seq[T] {
	return func(yield func(T) bool) {
		for {
			v, ok := Recv2(ch)
			if !ok {
				return
			}
			if !yield(v) {
				return
			}
		}
	}
}

// SelRecv / SelSend build select cases.
func SelRecv[T any](ch <-chan T) reflect.SelectCase {
	return reflect.SelectCase{Dir: reflect.SelectRecv, Chan: reflect.ValueOf(ch)}
}

func SelSend[T any](ch chan<- T, v T) reflect.SelectCase {
	return reflect.SelectCase{Dir: reflect.SelectSend, Chan: reflect.ValueOf(ch), Send: reflect.ValueOf(&v).Elem()}
}

// SelSendAny is SelSend for a value whose static type differs from the element type
// (e.g. a string sent on a chan any).
func SelSendAny[T any](ch chan<- T, v any) reflect.SelectCase {
	var x T
	if v != nil {
		reflect.ValueOf(&x).Elem().Set(reflect.ValueOf(v))
	}
	return reflect.SelectCase{Dir: reflect.SelectSend, Chan: reflect.ValueOf(ch), Send: reflect.ValueOf(&x).Elem()}
}

// Sel is the outcome of Select.
type Sel struct {
	I    int // chosen case, -1 for default
	Recv reflect.Value
	OK   bool
}

// As converts the received value of a select case to the channel's element type.
func As[T any](_ <-chan T, s Sel) T {
	var v T
	if s.Recv.IsValid() {
		reflect.ValueOf(&v).Elem().Set(s.Recv)
	}
	return v
}

// Select replaces a select statement: which ready case is taken is a tape choice rather
// than the runtime's hidden random choice.
func Select(hasDefault bool, cases ...reflect.SelectCase) Sel {
	s := active.Load()
	if s == nil || (s.inspecting && gid() == s.schedGid) {
		cs := cases
		if hasDefault {
			cs = append(slices.Clone(cases), reflect.SelectCase{Dir: reflect.SelectDefault})
		}
		i, v, ok := reflect.Select(cs)
		if hasDefault && i == len(cases) {
			i = -1
		}
		return Sel{i, v, ok}
	}
	s.Yield()
	n := len(cases)
	start := 0
	if n > 1 && !s.terminating.Load() {
		start = s.sched.Choose(n)
	}
	var two [2]reflect.SelectCase
	two[1] = reflect.SelectCase{Dir: reflect.SelectDefault}
	for k := 0; k < n; k++ {
		i := (start + k) % n
		if !cases[i].Chan.IsValid() || cases[i].Chan.IsNil() {
			continue
		}
		two[0] = cases[i]
		if j, v, ok := reflect.Select(two[:]); j == 0 {
			s.YieldHard()
			return Sel{i, v, ok}
		}
	}
	if hasDefault {
		return Sel{I: -1}
	}
	i, v, ok := reflect.Select(cases)
	s.YieldHard()
	return Sel{i, v, ok}
}

// Now is the bubble clock plus the injected skew.
func Now() time.Time {
	if s := active.Load(); s != nil {
		return time.Now().Add(time.Duration(s.skew.Load()))
	}
	return time.Now()
}

// Sleep sleeps on the bubble clock and yields afterwards.
func Sleep(d time.Duration) {
	Yield()
	time.Sleep(d)
	YieldHard()
}

// OrderedMap replaces `range m` for maps with ordered keys: iteration is in key order,
// rotated by a tape choice while a run is active (Go's own order is random per loop).
// Membership is re-checked at each step, as Go's semantics require for entries deleted
// during iteration.
func OrderedMap[M ~map[K]V, K cmp.Ordered, V any](m M) iter.Seq2[K, V] {
	return func(yield func(K, V) bool) {
		if len(m) == 0 {
			return
		}
		keys := make([]K, 0, len(m))
		for k := range m {
			keys = append(keys, k)
		}
		slices.Sort(keys)
		rot := 0
		if s := active.Load(); s != nil && len(keys) > 1 && !s.inspecting && !s.terminating.Load() && s.mapRot {
			rot = s.sched.Choose(len(keys))
		}
		for i := range keys {
			k := keys[(i+rot)%len(keys)]
			v, ok := m[k]
			if !ok {
				continue
			}
			if !yield(k, v) {
				return
			}
		}
	}
}

// OrderedMapBy is OrderedMap for key types that are not cmp.Ordered; less orders the keys.
func OrderedMapBy[M ~map[K]V, K comparable, V any](m M, cmpf func(a, b K) int) iter.Seq2[K, V] {
	return func(yield func(K, V) bool) {
		if len(m) == 0 {
			return
		}
		keys := make([]K, 0, len(m))
		for k := range m {
			keys = append(keys, k)
		}
		slices.SortFunc(keys, cmpf)
		for _, k := range keys {
			v, ok := m[k]
			if !ok {
				continue
			}
			if !yield(k, v) {
				return
			}
		}
	}
}

// Exit replaces os.Exit in instrumented code: inside a run it raises a typed panic so that
// the failure is reported with a replay file instead of killing the worker.
func Exit(code int) {
	if s := active.Load(); s != nil {
		panic(Fatal{Msg: "os.Exit(" + strconv.Itoa(code) + ")"})
	}
	os.Exit(code)
}
