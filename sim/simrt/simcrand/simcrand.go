// Package simcrand replaces crypto/rand: nonces and tokens become functions of the tape.
package simcrand

import (
	"crypto/rand"
	"io"
	"math/big"

	"verifsim/simrt"
	"verifsim/simrt/simrand"
)

type reader struct{}

func (reader) Read(p []byte) (int, error) { return Read(p) }

var Reader io.Reader = reader{}

func Read(p []byte) (int, error) {
	if s := simrt.Active(); s == nil {
		return rand.Read(p)
	}
	for i := 0; i < len(p); i += 8 {
		v := simrand.Uint64()
		for j := 0; j < 8 && i+j < len(p); j++ {
			p[i+j] = byte(v >> (8 * j))
		}
	}
	return len(p), nil
}

func Int(r io.Reader, max *big.Int) (*big.Int, error) { return rand.Int(r, max) }
func Text() string                                    { return rand.Text() }
