// Package simrandv1 replaces math/rand (v1).
package simrandv1

import (
	"math/rand"

	"verifsim/simrt/simrand"
)

type (
	Rand     = rand.Rand
	Source   = rand.Source
	Source64 = rand.Source64
)

func New(src Source) *Rand        { return rand.New(src) }
func NewSource(seed int64) Source { return rand.NewSource(seed) }
func Seed(seed int64)             {}

func Int63() int64                       { return simrand.Int64() }
func Uint32() uint32                     { return simrand.Uint32() }
func Uint64() uint64                     { return simrand.Uint64() }
func Int31() int32                       { return simrand.Int32() }
func Int() int                           { return simrand.Int() }
func Int63n(n int64) int64               { return simrand.Int64N(n) }
func Int31n(n int32) int32               { return simrand.Int32N(n) }
func Intn(n int) int                     { return simrand.IntN(n) }
func Float64() float64                   { return simrand.Float64() }
func Float32() float32                   { return simrand.Float32() }
func Perm(n int) []int                   { return simrand.Perm(n) }
func Shuffle(n int, swap func(i, j int)) { simrand.Shuffle(n, swap) }
func Read(p []byte) (int, error) {
	for i := range p {
		p[i] = byte(simrand.Uint32())
	}
	return len(p), nil
}
