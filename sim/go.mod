module verifsim

go 1.26.5

require (
	github.com/anishathalye/porcupine v1.3.0
	github.com/apmckinlay/gsuneido v0.0.0
	golang.org/x/time v0.15.0
)

require (
	github.com/ProtonMail/go-crypto v1.4.1 // indirect
	github.com/cloudflare/circl v1.6.4 // indirect
	golang.org/x/crypto v0.54.0 // indirect
	golang.org/x/exp v0.0.0-20260611194520-c48552f49976 // indirect
	golang.org/x/sys v0.47.0 // indirect
	golang.org/x/text v0.40.0 // indirect
)

replace github.com/apmckinlay/gsuneido => /repo
