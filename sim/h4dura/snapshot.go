// Package h4dura is harness H4 (durasim): histories of schema changes, transactions,
// persists and restarts on a real memory mapped database file, with crash images,
// historical reads and the dump / load / compact tools. Properties C04, C05, C19, C20, C21.
package h4dura

import (
	"fmt"
	"sort"
	"strings"

	"github.com/apmckinlay/gsuneido/core"
	"github.com/apmckinlay/gsuneido/db19"
	"github.com/apmckinlay/gsuneido/db19/index/iface"
	"github.com/apmckinlay/gsuneido/db19/meta"
	"github.com/apmckinlay/gsuneido/dbms/query"
)

type fkSnap struct {
	Table  string
	Cols   string
	IIndex int
	Mode   int
}

type idxSnap struct {
	Mode     byte
	Primary  bool
	Contains bool
	Cols     []string
	Fk       fkSnap
	FkToHere []fkSnap
	Entries  []string // "key\x00off" in index order
}

type tblSnap struct {
	Name       string
	SchemaText string
	Cols       []string // physical column list including "-" for deleted columns
	Derived    []string
	Idx        []idxSnap
	Nrows      int
	Size       int64
	Rows       []string          // records (raw bytes) in primary index order
	Logical    map[string]string // primary key fields -> canonical logical row (col=value ...)
}

type snap struct {
	Tables map[string]*tblSnap
	Views  map[string]string
	Infos  []string // table names that have an info entry
}

// readTran is the part of ReadTran / UpdateTran the snapshot needs.
type readTran interface {
	GetAllSchema() []*meta.Schema
	GetAllInfo() []*meta.Info
	GetAllViews() []string
	GetInfo(table string) *meta.Info
	GetRecord(off uint64) core.Record
}

// takeSnap reads everything visible through a read transaction.
func takeSnap(db *db19.Database, rt *db19.ReadTran, physical bool) (s *snap, err error) {
	defer func() {
		if e := recover(); e != nil {
			err = fmt.Errorf("reading the database raised: %v", e)
		}
	}()
	s = &snap{Tables: map[string]*tblSnap{}, Views: map[string]string{}}
	vs := rt.GetAllViews()
	for i := 0; i+1 < len(vs); i += 2 {
		s.Views[vs[i]] = vs[i+1]
	}
	for _, ti := range rt.GetAllInfo() {
		s.Infos = append(s.Infos, ti.Table)
	}
	sort.Strings(s.Infos)
	for _, ts := range rt.GetAllSchema() {
		t := &tblSnap{Name: ts.Table, SchemaText: ts.Schema.String2(), Cols: append([]string(nil), ts.Columns...),
			Derived: append([]string(nil), ts.Derived...), Logical: map[string]string{}}
		info := rt.GetInfo(ts.Table)
		if info == nil {
			return nil, fmt.Errorf("table %s has a schema but no info entry", ts.Table)
		}
		t.Nrows, t.Size = info.Nrows, info.Size
		if len(info.Indexes) != len(ts.Indexes) {
			return nil, fmt.Errorf("table %s: schema has %d indexes, info has %d", ts.Table, len(ts.Indexes), len(info.Indexes))
		}
		pki := -1
		for i := range ts.Indexes {
			ix := &ts.Indexes[i]
			is := idxSnap{Mode: ix.Mode, Primary: ix.Primary, Contains: ix.ContainsKey, Cols: append([]string(nil), ix.Columns...)}
			if ix.Fk.Table != "" {
				cols := ix.Fk.Columns
				if len(cols) == 0 {
					cols = ix.Columns
				}
				is.Fk = fkSnap{ix.Fk.Table, strings.Join(cols, ","), ix.Fk.IIndex, int(ix.Fk.Mode)}
			}
			for _, f := range ix.FkToHere {
				is.FkToHere = append(is.FkToHere, fkSnap{f.Table, strings.Join(f.Columns, ","), f.IIndex, int(f.Mode)})
			}
			sort.Slice(is.FkToHere, func(a, b int) bool {
				x, y := is.FkToHere[a], is.FkToHere[b]
				return fmt.Sprint(x) < fmt.Sprint(y)
			})
			if ix.Mode == 'k' && pki < 0 {
				pki = i
			}
			it := rt.IndexIter(ts.Table, i)
			it.Range(iface.All)
			n := 0
			for it.Next(rt); !it.Eof(); it.Next(rt) {
				k, off := it.Cur()
				if physical {
					is.Entries = append(is.Entries, fmt.Sprintf("%s\x00%d", k, off))
				} else {
					is.Entries = append(is.Entries, k+"\x00"+string(rt.GetRecord(off)))
				}
				if n++; n > 100000 {
					return nil, fmt.Errorf("table %s index %d: runaway iteration", ts.Table, i)
				}
			}
			t.Idx = append(t.Idx, is)
		}
		if pki >= 0 {
			it := rt.IndexIter(ts.Table, pki)
			it.Range(iface.All)
			for it.Next(rt); !it.Eof(); it.Next(rt) {
				_, off := it.Cur()
				rec := rt.GetRecord(off)
				t.Rows = append(t.Rows, string(rec))
				pk, lr := logicalRow(ts.Columns, ts.Indexes[pki].Columns, rec)
				t.Logical[pk] = lr
			}
		}
		s.Tables[ts.Table] = t
	}
	return s, nil
}

// logicalRow renders a record as "col=value;..." over the live columns (sorted), and its
// primary key fields.
func logicalRow(cols []string, keyCols []string, rec core.Record) (pk, lr string) {
	var parts []string
	vals := map[string]string{}
	for i, c := range cols {
		if c == "-" {
			continue
		}
		v := rec.GetRaw(i)
		vals[c] = v
		if v != "" {
			parts = append(parts, c+"="+v)
		}
	}
	sort.Strings(parts)
	var ks []string
	for _, c := range keyCols {
		ks = append(ks, vals[c])
	}
	return strings.Join(ks, "\x00\x01"), strings.Join(parts, ";")
}

// diffSnap describes the first differences between two snapshots ("" if equal).
func diffSnap(a, b *snap, physical bool) string {
	var out []string
	add := func(format string, args ...any) {
		if len(out) < 10 {
			out = append(out, fmt.Sprintf(format, args...))
		}
	}
	for n, ta := range a.Tables {
		tb, ok := b.Tables[n]
		if !ok {
			add("table %s is missing", n)
			continue
		}
		if ta.SchemaText != tb.SchemaText {
			add("table %s schema %q vs %q", n, ta.SchemaText, tb.SchemaText)
		}
		if strings.Join(ta.Cols, ",") != strings.Join(tb.Cols, ",") || strings.Join(ta.Derived, ",") != strings.Join(tb.Derived, ",") {
			add("table %s columns %v %v vs %v %v", n, ta.Cols, ta.Derived, tb.Cols, tb.Derived)
		}
		if ta.Nrows != tb.Nrows || ta.Size != tb.Size {
			add("table %s nrows/size %d/%d vs %d/%d", n, ta.Nrows, ta.Size, tb.Nrows, tb.Size)
		}
		if len(ta.Idx) != len(tb.Idx) {
			add("table %s has %d vs %d indexes", n, len(ta.Idx), len(tb.Idx))
			continue
		}
		for i := range ta.Idx {
			x, y := ta.Idx[i], tb.Idx[i]
			if x.Mode != y.Mode || strings.Join(x.Cols, ",") != strings.Join(y.Cols, ",") {
				add("table %s index %d: %c%v vs %c%v", n, i, x.Mode, x.Cols, y.Mode, y.Cols)
			}
			if x.Primary != y.Primary || x.Contains != y.Contains {
				add("table %s index %d %v: primary/contains-key flags %v/%v vs %v/%v", n, i, x.Cols, x.Primary, x.Contains, y.Primary, y.Contains)
			}
			if x.Fk != y.Fk {
				add("table %s index %d %v: foreign key %v vs %v", n, i, x.Cols, x.Fk, y.Fk)
			}
			if fmt.Sprint(x.FkToHere) != fmt.Sprint(y.FkToHere) {
				add("table %s index %d %v: foreign keys to here %v vs %v", n, i, x.Cols, x.FkToHere, y.FkToHere)
			}
			if len(x.Entries) != len(y.Entries) {
				add("table %s index %d %v: %d vs %d entries", n, i, x.Cols, len(x.Entries), len(y.Entries))
			} else {
				for j := range x.Entries {
					if x.Entries[j] != y.Entries[j] {
						add("table %s index %d %v: entry %d differs: %q vs %q", n, i, x.Cols, j, x.Entries[j], y.Entries[j])
						break
					}
				}
			}
		}
		if len(ta.Rows) != len(tb.Rows) {
			add("table %s has %d vs %d rows", n, len(ta.Rows), len(tb.Rows))
		} else {
			for j := range ta.Rows {
				if ta.Rows[j] != tb.Rows[j] {
					add("table %s row %d differs: %q vs %q", n, j, ta.Rows[j], tb.Rows[j])
					break
				}
			}
		}
	}
	for n := range b.Tables {
		if _, ok := a.Tables[n]; !ok {
			add("table %s appeared", n)
		}
	}
	for n, d := range a.Views {
		if b.Views[n] != d {
			add("view %s: %q vs %q", n, d, b.Views[n])
		}
	}
	for n := range b.Views {
		if _, ok := a.Views[n]; !ok {
			add("view %s appeared", n)
		}
	}
	if strings.Join(a.Infos, ",") != strings.Join(b.Infos, ",") {
		add("info entries %v vs %v", a.Infos, b.Infos)
	}
	return strings.Join(out, "; ")
}

// checkInvariants checks the schema invariants of property C21 on a snapshot.
func checkInvariants(db *db19.Database, s *snap) string {
	names := make([]string, 0, len(s.Tables))
	for n := range s.Tables {
		names = append(names, n)
	}
	sort.Strings(names)
	if strings.Join(names, ",") != strings.Join(s.Infos, ",") {
		return fmt.Sprintf("schema tables %v but info entries %v", names, s.Infos)
	}
	for _, n := range names {
		t := s.Tables[n]
		hasKey := false
		for i, ix := range t.Idx {
			if ix.Mode == 'k' {
				hasKey = true
			}
			for _, c := range ix.Cols {
				base := strings.TrimSuffix(c, "_lower!")
				if !containsStr(t.Cols, base) && !containsStr(t.Derived, base) && !containsStr(t.Derived, capitalize(base)) {
					return fmt.Sprintf("table %s index %d %v refers to column %s which does not exist (columns %v %v)", n, i, ix.Cols, c, t.Cols, t.Derived)
				}
			}
			if ix.Fk.Table != "" {
				tg, ok := s.Tables[ix.Fk.Table]
				if !ok {
					return fmt.Sprintf("table %s index %v: foreign key to missing table %s", n, ix.Cols, ix.Fk.Table)
				}
				if ix.Fk.IIndex < 0 || ix.Fk.IIndex >= len(tg.Idx) {
					return fmt.Sprintf("table %s index %v: foreign key index number %d out of range in %s", n, ix.Cols, ix.Fk.IIndex, tg.Name)
				}
				tix := tg.Idx[ix.Fk.IIndex]
				if strings.Join(tix.Cols, ",") != ix.Fk.Cols || tix.Mode != 'k' {
					return fmt.Sprintf("table %s index %v: foreign key says %s index %d is key(%s) but that index is %c%v", n, ix.Cols, tg.Name, ix.Fk.IIndex, ix.Fk.Cols, tix.Mode, tix.Cols)
				}
				want := fkSnap{n, strings.Join(ix.Cols, ","), i, ix.Fk.Mode}
				found := false
				for _, f := range tix.FkToHere {
					if f == want {
						found = true
					}
				}
				if !found {
					return fmt.Sprintf("table %s index %v has a foreign key to %s(%s) but the target's back links are %v (want %v)", n, ix.Cols, tg.Name, ix.Fk.Cols, tix.FkToHere, want)
				}
			}
			for _, f := range ix.FkToHere {
				src, ok := s.Tables[f.Table]
				if !ok {
					return fmt.Sprintf("table %s index %v: back link from missing table %s", n, ix.Cols, f.Table)
				}
				if f.IIndex < 0 || f.IIndex >= len(src.Idx) {
					return fmt.Sprintf("table %s index %v: back link %v index number out of range", n, ix.Cols, f)
				}
				six := src.Idx[f.IIndex]
				if strings.Join(six.Cols, ",") != f.Cols || six.Fk.Table != n || six.Fk.IIndex != i || six.Fk.Mode != f.Mode {
					return fmt.Sprintf("table %s index %d %v: back link %v does not match %s index %d which is %v with foreign key %v", n, i, ix.Cols, f, src.Name, f.IIndex, six.Cols, six.Fk)
				}
			}
			// every index has exactly the rows of the table
			if len(ix.Entries) != len(t.Rows) {
				return fmt.Sprintf("table %s index %d %v has %d entries but the table has %d rows", n, i, ix.Cols, len(ix.Entries), len(t.Rows))
			}
		}
		if !hasKey {
			return fmt.Sprintf("table %s has no key", n)
		}
		if t.Nrows != len(t.Rows) {
			return fmt.Sprintf("table %s: nrows %d but %d rows", n, t.Nrows, len(t.Rows))
		}
		var bytes int64
		for _, r := range t.Rows {
			bytes += int64(len(r))
		}
		if t.Size != bytes {
			return fmt.Sprintf("table %s: size %d but rows total %d bytes", n, t.Size, bytes)
		}
		// the schema text re-parses to the same schema
		if msg := reparse(t.SchemaText); msg != "" {
			return fmt.Sprintf("table %s: %s", n, msg)
		}
	}
	return ""
}

func reparse(text string) (msg string) {
	defer func() {
		if e := recover(); e != nil {
			msg = fmt.Sprintf("schema text %q does not re-parse: %v", text, e)
		}
	}()
	// String2 appends " from table(cols)" back links which are not part of the syntax
	clean := text
	for {
		i := strings.Index(clean, " from ")
		if i < 0 {
			break
		}
		j := strings.Index(clean[i:], ")")
		if j < 0 {
			break
		}
		clean = clean[:i] + clean[i+j+1:]
	}
	sch := query.NewAdminParser(clean).Schema()
	again := sch.String()
	if norm(again) != norm(clean) {
		return fmt.Sprintf("schema text %q re-parses to %q", clean, again)
	}
	return ""
}

func norm(s string) string { return strings.Join(strings.Fields(s), " ") }

func containsStr(list []string, s string) bool {
	for _, x := range list {
		if x == s {
			return true
		}
	}
	return false
}

func capitalize(s string) string {
	if s == "" {
		return s
	}
	return strings.ToUpper(s[:1]) + s[1:]
}
