package h4dura

import (
	"bytes"
	"fmt"
	"os"
	"path/filepath"
	"sort"

	"github.com/apmckinlay/gsuneido/db19"

	"verifsim/simrt"
)

// crashImage is the content of the database file at one scheduler step: what the page
// cache holds if the process dies there.
type crashImage struct {
	step int64
	data []byte
}

func (h *harness) maybeImage() {
	if len(h.imageAt) == 0 || h.db == nil {
		return
	}
	for at := range h.imageAt {
		if h.s.Steps >= at {
			delete(h.imageAt, at)
			if res := try(func() {
				size := h.db.Store.Size()
				if size > 32<<20 {
					return
				}
				data := append([]byte(nil), h.db.Store.Data(0)[:size]...)
				h.images = append(h.images, crashImage{step: h.s.Steps, data: data})
				h.s.Note("crash image at step %d size %d", h.s.Steps, size)
			}); res != "" {
				// the store is closed (between close and reopen): no image
				_ = res
			}
		}
	}
}

const (
	tailAbsent = iota
	tailZeros
	tailGarbage
)

func (h *harness) checkCrashes() bool {
	s := h.s
	g := s.Tape.Stream("crash")
	final, err := os.ReadFile(h.file)
	if err != nil {
		s.Machine("read final file: %v", err)
		return false
	}
	stateLen := uint64(db19.VerifStateLen)
	tailSize := uint64(db19.VerifTailSize)
	images := append([]crashImage(nil), h.images...)
	images = append(images, crashImage{step: -1, data: final}) // the cleanly closed file, to be damaged by truncation
	budget := 150
	for _, img := range images {
		n := uint64(len(img.data))
		// truncation offsets
		offs := map[uint64]bool{n: true}
		add := func(o uint64) {
			if o <= n && o > 0 {
				offs[o] = true
			}
		}
		for _, st := range h.states {
			if st.off > n {
				continue
			}
			for _, d := range []int64{-1, 0, 1} {
				add(uint64(int64(st.off) + d))
				add(uint64(int64(st.off+stateLen) + d))
				add(uint64(int64(st.off+stateLen+tailSize) + d))
			}
		}
		// every byte inside the last two state records (and the marker that may follow)
		for k := len(h.states) - 1; k >= 0 && k >= len(h.states)-2; k-- {
			st := h.states[k]
			for o := st.off; o <= st.off+stateLen+tailSize; o++ {
				if g.Coin(1, 3) {
					add(o)
				}
			}
		}
		for i := 0; i < 12 && n > 8; i++ {
			add(uint64(1 + g.Choose(int(n))))
		}
		var list []uint64
		for o := range offs {
			list = append(list, o)
		}
		sort.Slice(list, func(i, j int) bool { return list[i] < list[j] })
		// sample down to the budget of this image
		per := budget / len(images)
		for len(list) > per {
			i := g.Choose(len(list))
			list = append(list[:i], list[i+1:]...)
		}
		for _, k := range list {
			if s.Over() {
				return false
			}
			tail := g.Choose(3)
			if !h.crashCase(img, k, tail, g.Choose(1<<30), final) {
				return false
			}
			h.ri.Count("crash.cases", 1)
			h.ri.Count(fmt.Sprintf("fault.crash-tail-%s", []string{"absent", "zeros", "garbage"}[tail]), 1)
		}
	}
	return true
}

func (h *harness) crashCase(img crashImage, k uint64, tail int, seed int, final []byte) bool {
	file := filepath.Join(h.dir, "crash.db")
	os.Remove(file)
	os.Remove(file + ".bak")
	data := append([]byte(nil), img.data[:k]...)
	switch tail {
	case tailZeros:
		data = append(data, make([]byte, 1+seed%5000)...)
	case tailGarbage:
		x := uint64(seed)*2654435761 + 1
		for i := 0; i < 1+seed%300; i++ {
			x = x*6364136223846793005 + 1442695040888963407
			data = append(data, byte(x>>33))
		}
	}
	if err := os.WriteFile(file, data, 0o644); err != nil {
		h.s.Machine("write crash file: %v", err)
		return false
	}
	// the newest state record that is completely present in the damaged file (a garbage or
	// zero tail can happen to complete a record that was cut one byte short)
	stateLen := uint64(db19.VerifStateLen)
	newest := -1
	for i, st := range h.states {
		end := st.off + stateLen
		if end <= uint64(len(data)) && end <= uint64(len(final)) && bytes.Equal(data[st.off:end], final[st.off:end]) {
			newest = i
		}
	}
	haveState := newest >= 0
	want := func() int { return newest }
	validHeader := k >= 8
	desc := fmt.Sprintf("crash image at step %d (%d bytes) truncated at %d with tail %s", img.step, len(img.data), k, []string{"absent", "zero filled", "garbage"}[tail])
	var db *db19.Database
	var err error
	// Two ways lead to Repair: the server finds that it cannot open the database (open,
	// repair, open), or the operator runs the repair command (quick check, repair; the
	// database is opened by the next start). A failed open truncates trailing zeros, so the
	// second way shows Repair a different file.
	if seed%3 == 2 && validHeader {
		var cerr error
		if res := tryFatal(func() { cerr = db19.CheckDatabase(file, false) }); res != "" {
			h.fail("C05/crash", "C05/crash/check-panicked", "%s: CheckDatabase raised %s", desc, res)
			return false
		}
		if cerr != nil {
			h.ri.Count("crash.repair-command-flow", 1)
			return h.crashRepair(file, desc, cerr, haveState, want, final)
		}
		// "database ok": nothing is repaired, the server start follows
	}
	// 1. open must refuse (or open a cleanly closed earlier file to that close's contents)
	res := tryFatal(func() { db, err = db19.OpenDatabase(file) })
	if res == fatalExit && !validHeader {
		// the file does not even have the database header: the process refuses it with
		// "FATAL: not a valid database file" and exits - a clear refusal
		h.ri.Count("crash.refused-fatal-no-header", 1)
		return true
	}
	if res != "" {
		h.fail("C05/crash", "C05/crash/open-panicked", "%s: OpenDatabase raised %s instead of returning an error", desc, res)
		return false
	}
	if err == nil {
		// acceptable only as a cleanly closed file whose contents are the newest complete state
		ok := haveState
		var msg string
		if ok {
			j := want()
			var got map[string]map[string]string
			var rerr error
			if r := try(func() { got, rerr = h.logicalOf(db) }); r != "" || rerr != nil {
				ok, msg = false, fmt.Sprintf("reading raised %v %v", r, rerr)
			} else if k, d := h.matchPrefix(h.states[j], got); k < 0 {
				ok, msg = false, fmt.Sprintf("contents differ from persisted state %d: %s", j, d)
			}
		} else {
			msg = "no complete state record lies below the truncation point"
		}
		try(func() { db.Close() })
		if !ok {
			h.fail("C05/crash", "C05/crash/damaged-file-opened", "%s: the file was opened without complaint: %s", desc, msg)
			return false
		}
		h.ri.Count("crash.opened-as-clean", 1)
		return true
	}
	h.ri.Count("crash.refused", 1)
	// 2. check must terminate with a result
	var cerr error
	if res := try(func() { cerr = db19.CheckDatabase(file, true) }); res != "" {
		h.fail("C05/crash", "C05/crash/check-panicked", "%s: CheckDatabase raised %s", desc, res)
		return false
	}
	_ = cerr
	return h.crashRepair(file, desc, err, haveState, want, final)
}

// crashRepair: Repair must return; with a complete state record it must succeed and leave a
// database that opens, passes the full check and holds that state; without one it must fail.
func (h *harness) crashRepair(file, desc string, err error, haveState bool, want func() int, final []byte) bool {
	var db *db19.Database
	// 3. repair
	var rmsg string
	var rerr error
	if res := try(func() { rmsg, rerr = db19.Repair(file, err) }); res != "" {
		h.fail("C05/crash", "C05/crash/repair-panicked", "%s: Repair raised %s", desc, res)
		return false
	}
	if !haveState {
		if rerr == nil {
			h.fail("C05/crash", "C05/crash/repair-invented-state", "%s: no complete state record exists, yet Repair reported success: %s", desc, rmsg)
			return false
		}
		h.ri.Count("crash.unrepairable", 1)
		return true
	}
	j := want()
	if rerr != nil {
		h.fail("C05/crash", "C05/crash/repair-failed", "%s: state %d (offset %d) is completely persisted below the truncation point but Repair failed: %v", desc, j, h.states[j].off, rerr)
		return false
	}
	res := try(func() { db, err = db19.OpenDatabase(file) })
	if res != "" || err != nil {
		h.fail("C05/crash", "C05/crash/open-after-repair", "%s: after Repair (%s) the database does not open: %v %v", desc, rmsg, res, err)
		return false
	}
	defer func() { try(func() { db.Close() }) }()
	var got map[string]map[string]string
	var gerr error
	if r := try(func() { got, gerr = h.logicalOf(db) }); r != "" || gerr != nil {
		h.fail("C05/crash", "C05/crash/read-after-repair", "%s: after Repair reading raised %v %v", desc, r, gerr)
		return false
	}
	if k, d := h.matchPrefix(h.states[j], got); k < 0 {
		h.fail("C05/crash", "C05/crash/wrong-state", "%s: after Repair (%s) the contents are not those of the newest completely persisted state %d (offset %d, history prefix %d..%d): %s", desc, rmsg, j, h.states[j].off, h.states[j].klo, h.states[j].khi, d)
		return false
	}
	var ferr error
	if r := try(func() { ferr = db.Check(true) }); r != "" || ferr != nil {
		h.fail("C05/crash", "C05/crash/check-after-repair", "%s: after Repair the full check fails: %v %v", desc, r, ferr)
		return false
	}
	h.ri.Count("crash.repaired", 1)
	return true
}

const fatalExit = "FATAL exit"

// tryFatal is try, but an exit of the process (core.Fatal) is reported as a result.
func tryFatal(f func()) (res string) {
	defer func() {
		if e := recover(); e != nil {
			if _, ok := e.(simrt.Fatal); ok {
				res = fatalExit
				return
			}
			res = fmt.Sprint(e)
			if res == "" {
				res = "panic"
			}
		}
	}()
	f()
	return ""
}

func (h *harness) logicalOf(db *db19.Database) (map[string]map[string]string, error) {
	sn, err := takeSnap(db, db.NewReadTran(), false)
	if err != nil {
		return nil, err
	}
	m := map[string]map[string]string{}
	for tn, t := range sn.Tables {
		m[tn] = t.Logical
	}
	return m, nil
}
