package h4dura

import (
	"fmt"
	"io"
	"os"
	"path/filepath"
	"sort"
	"strings"
	"time"

	"github.com/apmckinlay/gsuneido/core"
	"github.com/apmckinlay/gsuneido/db19"
	"github.com/apmckinlay/gsuneido/db19/tools"

	"verifsim/simrt"
)

// ---------------------------------------------------------------------------------------
// C19 historical reads

func (h *harness) logicalAt(rt *db19.ReadTran) (map[string]map[string]string, error) {
	sn, err := takeSnap(h.db, rt, false)
	if err != nil {
		return nil, err
	}
	m := map[string]map[string]string{}
	for tn, t := range sn.Tables {
		m[tn] = t.Logical
	}
	return m, nil
}

// sameLogical compares two logical contents as sets of rows per table (the map keys
// depend on which key comes first in the schema, which dump/load may change).
func sameLogical(a, b map[string]map[string]string) string {
	rowsOf := func(m map[string]string) []string {
		var rs []string
		for _, r := range m {
			rs = append(rs, r)
		}
		sort.Strings(rs)
		return rs
	}
	for tn, rows := range a {
		o, ok := b[tn]
		if !ok {
			if len(rows) == 0 {
				continue
			}
			return fmt.Sprintf("table %s missing", tn)
		}
		ra, rb := rowsOf(rows), rowsOf(o)
		if len(ra) != len(rb) {
			return fmt.Sprintf("table %s has %d rows vs %d", tn, len(ra), len(rb))
		}
		for i := range ra {
			if ra[i] != rb[i] {
				return fmt.Sprintf("table %s: row %q vs %q", tn, short(ra[i]), short(rb[i]))
			}
		}
	}
	for tn, rows := range b {
		if _, ok := a[tn]; !ok && len(rows) > 0 {
			return fmt.Sprintf("table %s unexpected", tn)
		}
	}
	return ""
}

func rowCounts(m map[string]map[string]string) map[string]int {
	c := map[string]int{}
	for t, r := range m {
		c[t] = len(r)
	}
	return c
}

// matchPrefix returns the smallest admissible prefix of the history whose model equals the
// contents (or -1 and the difference to the newest admissible prefix).
func (h *harness) matchPrefix(st persisted, got map[string]map[string]string) (int, string) {
	hi := st.khi
	if hi > len(h.events)-1 {
		hi = len(h.events) - 1
	}
	d := "empty admissible range"
	for k := st.klo; k <= hi; k++ {
		if d = sameLogical(h.events[k], got); d == "" {
			return k, ""
		}
	}
	return -1, d
}

// checkAsof walks the history. A persist that is in progress at that moment has written its
// state record but not published the state yet: the walk then meets a record that is newer
// than the newest published state. That is not a fault; the walk is repeated once the
// persist has completed.
func (h *harness) checkAsof() bool {
	for try := 0; ; try++ {
		h.asofRetry = false
		ok := h.checkAsof1(try < 50)
		if !h.asofRetry || h.s.Over() {
			return ok
		}
		h.ri.Count("asof.walk-retried-persist-in-progress", 1)
		simrt.Sleep(time.Millisecond)
	}
}

func (h *harness) checkAsof1(mayRetry bool) bool {
	s := h.s
	n := len(h.states)
	if n == 0 {
		return true
	}
	// the concurrent reader must be idle: the inspector cannot wait for a lock it holds
	h.dbMu.Lock()
	defer h.dbMu.Unlock()
	ok := true
	s.Inspect(func() {
		h.observe()
		n = len(h.states)
		rt := h.db.NewReadTran()
		// step backwards from the current state through every persisted state
		times := make([]int64, n)
		for i := n - 1; i >= 0; i-- {
			var t int64
			res := try(func() { t = rt.Asof(-1) })
			if res != "" || t == 0 {
				h.fail("C19/asof", "", "stepping back (%d states persisted): step to state %d returned %d %s", n, i, t, res)
				ok = false
				return
			}
			st := h.states[i]
			if off := rt.VerifOff(); off != st.off {
				if i == n-1 && off > st.off && mayRetry {
					h.asofRetry = true // a newer record than the newest published state
					ok = false
					return
				}
				h.fail("C19/asof", "", "stepping back (%d states persisted): the step to state %d landed on the state at offset %d, expected offset %d", n, i, off, st.off)
				ok = false
				return
			}
			// the record is stamped before the state is published; time can pass in between
			if t > st.hi || (i+1 < n && t > times[i+1]) {
				h.fail("C19/asof", "", "stepping back: state %d (offset %d) reports time %d, but it was published at %d and the next state reports %d", i, st.off, t, st.hi, times[min(i+1, n-1)])
				ok = false
				return
			}
			times[i] = t
			got, err := h.logicalAt(rt)
			if err != nil {
				h.fail("C19/asof", "", "reading state %d: %v", i, err)
				ok = false
				return
			}
			if os.Getenv("VERIF_DEBUG_ASOF") != "" {
				k, d := h.matchPrefix(st, got)
				fmt.Fprintf(os.Stderr, "asof walk: state %d off=%d t=%d [%d,%d] k=%d..%d match=%d %s rows=%v\n", i, st.off, t, st.lo, st.hi, st.klo, st.khi, k, d, rowCounts(got))
			}
			if k, d := h.matchPrefix(st, got); k < 0 {
				h.fail("C19/asof", "", "stepping back: state %d (offset %d) shows contents that are not the model after any admissible prefix of the history (operations %d..%d): %s", i, st.off, st.klo, st.khi, d)
				ok = false
				return
			}
		}
		var t int64
		if res := try(func() { t = rt.Asof(-1) }); res != "" || t != 0 {
			h.fail("C19/asof", "", "stepping back past the first state returned %d %s", t, res)
			ok = false
			return
		}
		// the lookups made while the history was running must agree with the final list of states
		for _, q := range h.asofLog {
			want := times[0]
			for i := range times {
				if times[i] <= q.t {
					want = times[i]
				}
			}
			if q.r != want {
				h.fail("C19/asof", "C19/asof/answer-changed", "a lookup made during the history, Asof(%d), landed on the state of time %d, but the most recent persisted state at or before that time is the one of time %d (state times %v)", q.t, q.r, want, times)
				ok = false
				return
			}
		}
		// forwards again: the transaction is still on the first state; every step must land on
		// the next persisted state, and there is nothing after the last one
		for i := 1; i < n; i++ {
			var t int64
			res := try(func() { t = rt.Asof(1) })
			if res != "" || t != times[i] || rt.VerifOff() != h.states[i].off {
				h.fail("C19/asof", "C19/asof/forward", "stepping forward (%d states persisted): the step from state %d (offset %d) to state %d (offset %d) returned time %d %s, expected %d (state times %v)", n, i-1, h.states[i-1].off, i, h.states[i].off, t, res, times[i], times)
				ok = false
				return
			}
			got, err := h.logicalAt(rt)
			if err != nil {
				h.fail("C19/asof", "C19/asof/forward", "stepping forward: reading state %d: %v", i, err)
				ok = false
				return
			}
			if k, d := h.matchPrefix(h.states[i], got); k < 0 {
				h.fail("C19/asof", "C19/asof/forward", "stepping forward: state %d (offset %d) shows contents that are not the model after any admissible prefix of the history (operations %d..%d): %s", i, h.states[i].off, h.states[i].klo, h.states[i].khi, d)
				ok = false
				return
			}
		}
		if res := try(func() { t = rt.Asof(1) }); res != "" || t != 0 {
			h.fail("C19/asof", "C19/asof/forward", "stepping forward past the last persisted state returned %d %s", t, res)
			ok = false
			return
		}
		h.ri.Count("asof.forward-steps", int64(n-1))
		// Asof(t) for chosen times
		g := s.Tape.Stream("asof")
		for q := 0; q < 6; q++ {
			var t int64
			switch g.Choose(4) {
			case 0:
				t = times[g.Choose(n)]
			case 1:
				t = times[g.Choose(n)] + int64(g.Choose(3)) - 1
			case 2:
				t = times[0] - 1 - int64(g.Choose(5000))
			case 3:
				t = times[n-1] + int64(g.Choose(100000))
			}
			if t <= 1 {
				continue
			}
			want := 0
			for i := range times {
				if times[i] <= t {
					want = i
				}
			}
			rt := h.db.NewReadTran()
			var r int64
			res := try(func() { r = rt.Asof(t) })
			if res != "" {
				h.fail("C19/asof", "", "Asof(%d) raised %s", t, res)
				ok = false
				return
			}
			cur := simrt.Now().UnixMilli()
			if t >= cur {
				continue // future: the current (possibly unpersisted) state
			}
			if r != times[want] {
				h.fail("C19/asof", "", "Asof(%d) landed on the state of time %d, expected state %d of time %d (state times %v)", t, r, want, times[want], times)
				ok = false
				return
			}
			got, err := h.logicalAt(rt)
			if err != nil {
				h.fail("C19/asof", "", "reading asof %d: %v", t, err)
				ok = false
				return
			}
			// coincident times: any state with that time is acceptable only if it is the newest
			if k, d := h.matchPrefix(h.states[want], got); k < 0 {
				h.fail("C19/asof", "", "Asof(%d) shows contents that are not those of state %d (time %d): %s", t, want, times[want], d)
				ok = false
				return
			}
			h.ri.Count("asof.queries", 1)
		}
		h.ri.Count("asof.states-walked", int64(n))
	})
	return ok && !s.Over()
}

// ---------------------------------------------------------------------------------------
// C20 dump / load / compact

type logicalDb struct {
	tables map[string]*logicalTable
	views  map[string]string
}

type logicalTable struct {
	cols    []string
	derived []string
	idx     []string // sorted "mode cols fk"
	rows    map[string]string
	nrows   int
}

func logicalOf(sn *snap) *logicalDb {
	l := &logicalDb{tables: map[string]*logicalTable{}, views: sn.Views}
	for tn, t := range sn.Tables {
		lt := &logicalTable{cols: liveCols(t), derived: t.Derived, rows: t.Logical, nrows: t.Nrows}
		for _, ix := range t.Idx {
			s := fmt.Sprintf("%c(%s)", ix.Mode, strings.Join(ix.Cols, ","))
			if ix.Fk.Table != "" {
				s += fmt.Sprintf(" in %s(%s) mode %d", ix.Fk.Table, ix.Fk.Cols, ix.Fk.Mode)
			}
			lt.idx = append(lt.idx, s)
		}
		sort.Strings(lt.idx)
		l.tables[tn] = lt
	}
	return l
}

func diffLogical(a, b *logicalDb) string {
	for tn, ta := range a.tables {
		tb, ok := b.tables[tn]
		if !ok {
			return "table " + tn + " is missing"
		}
		if strings.Join(ta.cols, ",") != strings.Join(tb.cols, ",") {
			return fmt.Sprintf("table %s columns %v vs %v", tn, ta.cols, tb.cols)
		}
		if strings.Join(ta.derived, ",") != strings.Join(tb.derived, ",") {
			return fmt.Sprintf("table %s derived columns %v vs %v", tn, ta.derived, tb.derived)
		}
		if strings.Join(ta.idx, ";") != strings.Join(tb.idx, ";") {
			return fmt.Sprintf("table %s indexes %v vs %v", tn, ta.idx, tb.idx)
		}
		if ta.nrows != tb.nrows || len(ta.rows) != len(tb.rows) {
			return fmt.Sprintf("table %s has %d/%d rows vs %d/%d", tn, ta.nrows, len(ta.rows), tb.nrows, len(tb.rows))
		}
		if d := sameLogical(map[string]map[string]string{tn: ta.rows}, map[string]map[string]string{tn: tb.rows}); d != "" {
			return d
		}
	}
	for tn := range b.tables {
		if _, ok := a.tables[tn]; !ok {
			return "table " + tn + " appeared"
		}
	}
	if fmt.Sprint(a.views) != fmt.Sprint(b.views) {
		return fmt.Sprintf("views %v vs %v", a.views, b.views)
	}
	return ""
}

func copyFile(from, to string) error {
	in, err := os.Open(from)
	if err != nil {
		return err
	}
	defer in.Close()
	out, err := os.Create(to)
	if err != nil {
		return err
	}
	defer out.Close()
	_, err = io.Copy(out, in)
	return err
}

// openSnap opens a closed database file, takes a logical snapshot, runs a full check and
// closes it again.
func (h *harness) openSnap(file string) (*snap, string) {
	var db *db19.Database
	var err error
	if res := try(func() { db, err = db19.OpenDatabase(file) }); res != "" || err != nil {
		return nil, fmt.Sprintf("open failed: %v %v", res, err)
	}
	defer func() { try(func() { db.Close() }) }()
	var sn *snap
	if res := try(func() { sn, err = takeSnap(db, db.NewReadTran(), false) }); res != "" || err != nil {
		return nil, fmt.Sprintf("reading failed: %v %v", res, err)
	}
	var cerr error
	if res := try(func() { cerr = db.Check(true) }); res != "" || cerr != nil {
		return nil, fmt.Sprintf("full check failed: %v %v", res, cerr)
	}
	return sn, ""
}

func (h *harness) checkTools(final *snap) bool {
	want := logicalOf(final)
	g := h.s.Tape.Stream("tools")
	// dump the whole database and load it into a new file
	dump := filepath.Join(h.dir, "database.su")
	var err error
	var nt, nv int
	if res := try(func() { nt, nv, err = tools.DumpDatabase(h.file, dump) }); res != "" || err != nil {
		h.fail("C20/tools", "", "DumpDatabase failed: %v %v", res, err)
		return false
	}
	if nt != len(final.Tables) || nv != len(final.Views) {
		h.fail("C20/tools", "", "DumpDatabase reported %d tables %d views, the database has %d and %d", nt, nv, len(final.Tables), len(final.Views))
		return false
	}
	loaded := filepath.Join(h.dir, "loaded.db")
	if res := try(func() { nt, nv, err = tools.LoadDatabase(dump, loaded, "", "") }); res != "" || err != nil {
		h.fail("C20/tools", "", "LoadDatabase of a fresh dump failed: %v %v", res, err)
		return false
	}
	sn, msg := h.openSnap(loaded)
	if msg != "" {
		h.fail("C20/tools", "", "database loaded from a dump: %s", msg)
		return false
	}
	if d := diffLogical(want, logicalOf(sn)); d != "" {
		h.fail("C20/tools", "C20/tools/dump-load", "dump + load changed the database: %s", d)
		return false
	}
	h.ri.Count("tools.dump-load", 1)
	if !h.checkLoadRefuses(final, dump, g) {
		return false
	}
	// compact a copy
	comp := filepath.Join(h.dir, "compact.db")
	if err := copyFile(h.file, comp); err != nil {
		h.s.Machine("copy: %v", err)
		return false
	}
	if res := try(func() { _, _, _, _, err = tools.Compact(comp) }); res != "" || err != nil {
		h.fail("C20/tools", "", "Compact failed: %v %v", res, err)
		return false
	}
	sn, msg = h.openSnap(comp)
	if msg != "" {
		h.fail("C20/tools", "", "compacted database: %s", msg)
		return false
	}
	if d := diffLogical(want, logicalOf(sn)); d != "" {
		h.fail("C20/tools", "C20/tools/compact", "compact changed the database: %s", d)
		return false
	}
	h.ri.Count("tools.compact", 1)
	// one table: dump it and load it into a fresh database
	var names []string
	for n := range final.Tables {
		names = append(names, n)
	}
	sort.Strings(names)
	if len(names) > 0 {
		tn := names[g.Choose(len(names))]
		t := final.Tables[tn]
		hasFk := false
		for _, ix := range t.Idx {
			if ix.Fk.Table != "" || len(ix.FkToHere) > 0 {
				hasFk = true
			}
		}
		if !hasFk {
			var n int
			if res := try(func() { n, err = tools.DumpTable(h.file, tn, filepath.Join(h.dir, tn+".su")) }); res != "" || err != nil {
				h.fail("C20/tools", "", "DumpTable %s failed: %v %v", tn, res, err)
				return false
			}
			if n != t.Nrows {
				h.fail("C20/tools", "", "DumpTable %s reported %d records, the table has %d", tn, n, t.Nrows)
				return false
			}
			single := filepath.Join(h.dir, "single.db")
			os.Remove(single)
			if res := try(func() { n, err = tools.LoadTable(tn, single) }); res != "" || err != nil {
				h.fail("C20/tools", "", "LoadTable %s failed: %v %v", tn, res, err)
				return false
			}
			sn, msg = h.openSnap(single)
			if msg != "" {
				h.fail("C20/tools", "", "database with one loaded table: %s", msg)
				return false
			}
			one := &logicalDb{tables: map[string]*logicalTable{tn: want.tables[tn]}, views: map[string]string{}}
			if d := diffLogical(one, logicalOf(sn)); d != "" {
				h.fail("C20/tools", "C20/tools/table-dump-load", "table dump + load changed table %s: %s", tn, d)
				return false
			}
			h.ri.Count("tools.table-dump-load", 1)
		}
	}
	return !h.s.Over()
}

// checkLoadRefuses: loading must refuse data that violates a key or unique index. The dump
// just written is edited so that an ordinary index over columns that hold the same values in
// two rows is declared a key (or unique index); LoadDatabase, and LoadTable for that table,
// must report an error.
func (h *harness) checkLoadRefuses(final *snap, dump string, g *simrt.Stream) bool {
	type cand struct{ table, from, to string }
	var cands []cand
	var names []string
	for n := range final.Tables {
		names = append(names, n)
	}
	sort.Strings(names)
	for _, tn := range names {
		t := final.Tables[tn]
		for _, ix := range t.Idx {
			if ix.Mode != 'i' || ix.Fk.Table != "" {
				continue
			}
			var pos []int
			for _, c := range ix.Cols {
				for i, pc := range t.Cols {
					if pc == c {
						pos = append(pos, i)
					}
				}
			}
			if len(pos) != len(ix.Cols) {
				continue
			}
			seen := map[string]bool{}
			dup := false
			for _, raw := range t.Rows {
				rec := core.Record(raw)
				var sb strings.Builder
				empty := true
				for _, i := range pos {
					v := rec.GetRaw(i)
					if v != "" {
						empty = false
					}
					sb.WriteString(v)
					sb.WriteByte(1)
				}
				if empty {
					continue
				}
				if seen[sb.String()] {
					dup = true
					break
				}
				seen[sb.String()] = true
			}
			if dup {
				cols := "(" + strings.Join(ix.Cols, ",") + ")"
				cands = append(cands, cand{tn, "index" + cols, []string{"key", "index unique"}[g.Choose(2)] + cols})
			}
		}
	}
	if len(cands) == 0 {
		return true
	}
	c := cands[g.Choose(len(cands))]
	edit := func(path string, multi bool) (string, bool) {
		data, err := os.ReadFile(path)
		if err != nil {
			h.s.Machine("cannot read %s: %v", path, err)
			return "", false
		}
		// the schema line of the table
		start := 0
		if multi {
			start = strings.Index(string(data), "====== "+c.table+" (")
		} else {
			start = strings.Index(string(data), "====== (")
		}
		if start < 0 {
			h.s.Machine("schema line of %s not found in %s", c.table, path)
			return "", false
		}
		end := start + strings.IndexByte(string(data[start:]), '\n')
		line := string(data[start:end])
		i := strings.Index(line, " "+c.from)
		if i < 0 || strings.HasPrefix(line[i+1+len(c.from):], " in ") {
			return "", true // (rendered differently: skip)
		}
		line = line[:i+1] + c.to + line[i+1+len(c.from):]
		out := path + ".bad"
		if err := os.WriteFile(out, append(append(append([]byte(nil), data[:start]...), line...), data[end:]...), 0o644); err != nil {
			h.s.Machine("cannot write %s: %v", out, err)
			return "", false
		}
		return out, true
	}
	bad, ok := edit(dump, true)
	if !ok {
		return false
	}
	if bad != "" {
		target := filepath.Join(h.dir, "loadedbad.db")
		os.Remove(target)
		var err error
		res := try(func() { _, _, err = tools.LoadDatabase(bad, target, "", "") })
		if res == "" && err == nil {
			h.fail("C20/tools", "C20/tools/load-accepted-duplicate", "LoadDatabase accepted a dump in which table %s declares %s although two rows hold the same values in those columns", c.table, c.to)
			return false
		}
		h.ri.Count("tools.load-refused-duplicate", 1)
		os.Remove(target)
		os.Remove(bad)
	}
	// the same through the single table path
	t := final.Tables[c.table]
	for _, ix := range t.Idx {
		if ix.Fk.Table != "" || len(ix.FkToHere) > 0 {
			return !h.s.Over()
		}
	}
	tfile := filepath.Join(h.dir, c.table+".su") // LoadTable reads <table>.su in the current directory (the run's directory)
	var err error
	if res := try(func() { _, err = tools.DumpTable(h.file, c.table, tfile) }); res != "" || err != nil {
		h.fail("C20/tools", "", "DumpTable %s failed: %v %v", c.table, res, err)
		return false
	}
	bad, ok = edit(tfile, false)
	if !ok {
		return false
	}
	if bad != "" {
		if err := os.Rename(bad, tfile); err != nil {
			h.s.Machine("rename: %v", err)
			return false
		}
		target := filepath.Join(h.dir, "singlebad.db")
		os.Remove(target)
		res := try(func() { _, err = tools.LoadTable(c.table, target) })
		if res == "" && err == nil {
			h.fail("C20/tools", "C20/tools/load-accepted-duplicate", "LoadTable accepted a dump of table %s that declares %s although two rows hold the same values in those columns", c.table, c.to)
			return false
		}
		h.ri.Count("tools.loadtable-refused-duplicate", 1)
		os.Remove(target)
	}
	os.Remove(tfile)
	return !h.s.Over()
}
