package h4dura

import (
	"os"
	"path/filepath"
	"testing"

	"github.com/apmckinlay/gsuneido/core"

	"verifsim/hkit"
	"verifsim/simrt"
)

func TestSim(t *testing.T) {
	// a private scratch directory per worker process, removed at exit
	d, err := os.MkdirTemp(".", "w")
	if err != nil {
		t.Fatal(err)
	}
	workDir, _ = filepath.Abs(d)
	defer os.RemoveAll(workDir)
	hkit.Main(t, hkit.Harness{
		Name: "h4dura",
		Config: func(mode string) simrt.Config {
			c := simrt.DefaultConfig()
			c.MaxSteps, c.FairSteps = 2_000_000, 2_000_000
			c.MaxSimTime, c.FairSimTime = 4*3600e9, 4*3600e9
			c.AdvanceNum, c.AdvanceDen = 1, 400
			return c
		},
		Main: Run,
		Warmup: func(string) {
			// the first lookup of a table's trigger takes a different path than later ones
			for _, n := range tableNames {
				core.Global.FindName(nil, "Trigger_"+n)
			}
		},
		WarmupRuns: 3,
	})
}
