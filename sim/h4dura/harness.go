package h4dura

import (
	"fmt"
	"os"
	"path/filepath"
	"sort"
	"strings"
	"time"

	"github.com/apmckinlay/gsuneido/core"
	"github.com/apmckinlay/gsuneido/db19"
	"github.com/apmckinlay/gsuneido/db19/index/btree"
	"github.com/apmckinlay/gsuneido/db19/index/iface"
	"github.com/apmckinlay/gsuneido/dbms/query"
	"github.com/apmckinlay/gsuneido/options"

	"verifsim/hkit"
	"verifsim/simrt"
	"verifsim/simrt/simmaphash"
	"verifsim/simrt/simsync"
)

var oracleProps = map[string]string{
	"C04/reopen-differs":     "C04",
	"C04/reopen-failed":      "C04 C05",
	"C04/rows-differ":        "C04 C21",
	"C21/invariant":          "C21 C04",
	"C21/failed-but-changed": "C21",
	"C21/effect":             "C21",
	"C21/must-fail":          "C21",
	"C21/data-changed":       "C21",
	"C21/old-state-changed":  "C21 C04",
	"C19/asof":               "C19",
	"C20/tools":              "C20",
	"C05/crash":              "C05",
	"op-panic":               "C04 C21",
	"task-panic":             "C04 C05 C20 C21",
	"fatal":                  "C04 C05 C20 C21",
	"stall":                  "C04 C05 C20",
	"machinery":              "*",
}

// persisted is one state record of the file. Its contents are the model after some
// prefix of the successful state changing operations (commits and admin requests): a
// persist saves what has been merged, which may lag the latest commits. klo..khi is the
// admissible range of prefixes: at least everything an explicit Persist / Close was asked
// to save (and never less than an earlier state), at most everything started so far.
type persisted struct {
	off      uint64
	lo       int64 // unix ms bounds of the persist
	hi       int64
	klo, khi int
}

// asofQuery is a historical lookup made while the history was running.
type asofQuery struct {
	t, r int64 // requested time, time of the state it landed on
}

type harness struct {
	s    *simrt.Sim
	ri   *hkit.RunInfo
	prop string
	g    *simrt.Stream
	dir  string
	file string
	db   *db19.Database

	// model of the logical contents (maintained from successful operations)
	rows  map[string]map[string]map[string]string // table -> pk -> col -> value
	keyOf map[string][]string                     // table -> primary key columns (from the implementation's schema)
	views map[string]string

	lastState *db19.DbState
	lastOff   uint64
	lastObsMs int64
	states    []persisted
	ops       []string
	tokN      int
	restarts  int
	images    []crashImage
	imageAt   map[int64]bool
	persistIv time.Duration
	asofRetry bool          // the history walk met a persist in progress
	dbMu      simsync.Mutex // held by the concurrent asof reader while it uses the database, and by restarts
	asofLog   []asofQuery
	events    []map[string]map[string]string // model after each successful state changing operation
	inflight  bool                           // a Complete() is in progress
	floor     int                            // prefix an explicit Persist / Close must include
}

func (h *harness) fail(oracle, sig, format string, args ...any) {
	props := oracleProps[oracle]
	if props == "*" || strings.Contains(props, h.prop) || h.prop == "ALL" {
		if sig == "" {
			sig = oracle
		}
		h.s.Fail(oracle, sig, format+"\nhistory:\n  %s", append(args, strings.Join(h.ops, "\n  "))...)
		return
	}
	h.s.Abandon("other-property-oracle:" + oracle)
}

func (h *harness) logf(format string, args ...any) {
	h.ops = append(h.ops, fmt.Sprintf(format, args...))
}

func try(f func()) (res string) {
	defer func() {
		if e := recover(); e != nil {
			if _, ok := e.(simrt.Fatal); ok {
				panic(e)
			}
			res = fmt.Sprint(e)
			if res == "" {
				res = "panic"
			}
		}
	}()
	f()
	return ""
}

// ---------------------------------------------------------------------------------------

// workDir is the worker process's private scratch directory.
var workDir = "."

var tableNames = []string{"ta", "tb", "tc", "td", "views2"} // (a name that only starts like the views section of a dump)
var colNames = []string{"a", "b", "c", "d", "e"}
var viewNames = []string{"va", "vb", "vc", "vd", "ve", "vf"}

func val(s string) string {
	if s == "" {
		return ""
	}
	return string(rune(core.PackString)) + s
}

func (h *harness) open(create bool) bool {
	var err error
	var db *db19.Database
	res := try(func() {
		if create {
			db, err = db19.CreateDatabase(h.file)
		} else {
			db, err = db19.OpenDatabase(h.file)
		}
	})
	if res != "" || err != nil {
		// (diagnostics: where the file ends, and what its last bytes are)
		diag := ""
		if data, e := os.ReadFile(h.file); e == nil {
			n := len(data)
			tail := data[max(0, n-48):]
			diag = fmt.Sprintf(" [file size %d = %d chunks + %d; last bytes %q]", n, n/131072, n%131072, tail)
		}
		h.fail("C04/reopen-failed", "", "opening the database after a clean close failed: %v %v%s", res, err, diag)
		return false
	}
	h.db = db
	h.lastState = db.GetState()
	db19.StartConcur(db, h.persistIv)
	return true
}

// observe records every persisted state (for C19 and C05).
func (h *harness) observe() {
	if h.db == nil {
		return
	}
	st := h.db.GetState()
	now := simrt.Now().UnixMilli()
	if st == nil || st == h.lastState {
		h.lastObsMs = now
		return
	}
	h.lastState = st
	if st.Off != 0 && st.Off != h.lastOff {
		h.lastOff = st.Off
		klo := 0
		if n := len(h.states); n > 0 {
			klo = h.states[n-1].klo
		}
		khi := len(h.events) - 1
		if h.inflight {
			khi++
		}
		h.states = append(h.states, persisted{off: st.Off, lo: h.lastObsMs, hi: now, klo: klo, khi: khi})
		if os.Getenv("VERIF_DEBUG_ASOF") != "" {
			fmt.Fprintf(os.Stderr, "observe state off=%d klo=%d khi=%d inflight=%v nops=%d\n", st.Off, klo, khi, h.inflight, len(h.ops))
		}
		h.s.Note("persisted state at %d", st.Off)
	}
	h.lastObsMs = now
}

func (h *harness) logicalModel() map[string]map[string]string {
	m := map[string]map[string]string{}
	for t, rs := range h.rows {
		m[t] = map[string]string{}
		for pk, r := range rs {
			m[t][pk] = renderRow(r)
		}
	}
	return m
}

func renderRow(r map[string]string) string {
	var parts []string
	for c, v := range r {
		if v != "" {
			parts = append(parts, c+"="+v)
		}
	}
	sort.Strings(parts)
	return strings.Join(parts, ";")
}

func pkOf(keyCols []string, r map[string]string) string {
	var ks []string
	for _, c := range keyCols {
		ks = append(ks, r[c])
	}
	return strings.Join(ks, "\x00\x01")
}

// snapNow reads the implementation through a fresh read transaction.
func (h *harness) snapNow(physical bool) *snap {
	var sn *snap
	var err error
	h.s.Inspect(func() {
		rt := h.db.NewReadTran()
		sn, err = takeSnap(h.db, rt, physical)
	})
	if err != nil {
		h.fail("C21/invariant", "", "%v", err)
		return nil
	}
	return sn
}

// compareRows checks the implementation's rows against the model.
func (h *harness) compareRows(sn *snap, when string) bool {
	for tn, t := range sn.Tables {
		want := h.rows[tn]
		if len(want) != len(t.Logical) {
			h.fail("C04/rows-differ", "", "%s: table %s has %d rows, expected %d", when, tn, len(t.Logical), len(want))
			return false
		}
		for pk, r := range want {
			got, ok := t.Logical[pk]
			if !ok || got != renderRow(r) {
				h.fail("C04/rows-differ", "", "%s: table %s row %q is %q, expected %q", when, tn, pk, got, renderRow(r))
				return false
			}
		}
	}
	for tn := range h.rows {
		if _, ok := sn.Tables[tn]; !ok {
			h.fail("C04/rows-differ", "", "%s: table %s is missing", when, tn)
			return false
		}
	}
	for v, d := range h.views {
		if sn.Views[v] != d {
			h.fail("C04/rows-differ", "", "%s: view %s is %q, expected %q", when, v, sn.Views[v], d)
			return false
		}
	}
	if len(sn.Views) != len(h.views) {
		h.fail("C04/rows-differ", "", "%s: views %v, expected %v", when, sn.Views, h.views)
		return false
	}
	return true
}

// ---------------------------------------------------------------------------------------
// admin requests

type adminReq struct {
	text     string
	kind     string // create ensure altercreate alterdrop alterrename rename view drop
	tbl      string
	to       string
	cols     []string
	idxs     []string // "key(a)" etc (text)
	from     []string
	toc      []string
	mustFail string
}

func (h *harness) pick(list []string) string { return list[h.g.Choose(len(list))] }

func (h *harness) subset(list []string, min, max int) []string {
	n := h.g.Range(min, max)
	perm := append([]string(nil), list...)
	for i := len(perm) - 1; i > 0; i-- {
		j := h.g.Choose(i + 1)
		perm[i], perm[j] = perm[j], perm[i]
	}
	if n > len(perm) {
		n = len(perm)
	}
	out := perm[:n]
	sort.Strings(out)
	return out
}

func liveCols(t *tblSnap) []string {
	var cs []string
	for _, c := range t.Cols {
		if c != "-" {
			cs = append(cs, c)
		}
	}
	return cs
}

func (h *harness) genIndexes(cols []string, sn *snap, self string, needKey bool) []string {
	var out []string
	if needKey {
		out = append(out, "key("+strings.Join(h.subset(cols, 1, 2), ",")+")")
	}
	for n := h.g.Choose(3); n > 0; n-- {
		kind := []string{"index", "index unique", "key", "index"}[h.g.Choose(4)]
		ic := h.subset(cols, 1, 2)
		s := kind + "(" + strings.Join(ic, ",") + ")"
		// foreign key to an existing key of another (or the same) table
		if kind != "key" && h.g.Coin(1, 2) {
			var cands []string
			for tn, t := range sn.Tables {
				for _, ix := range t.Idx {
					if ix.Mode == 'k' && len(ix.Cols) == len(ic) {
						cands = append(cands, tn+"("+strings.Join(ix.Cols, ",")+")")
					}
				}
			}
			sort.Strings(cands)
			if len(cands) > 0 && !h.g.Coin(1, 8) {
				s += " in " + h.pick(cands)
			} else if h.g.Coin(1, 2) {
				s += " in nosuch(" + strings.Join(ic, ",") + ")"
			}
			if strings.Contains(s, " in ") {
				s += []string{"", " cascade", " cascade update"}[h.g.Choose(3)]
			}
		}
		out = append(out, s)
	}
	return out
}

func (h *harness) genAdmin(sn *snap) adminReq {
	g := h.g
	var existing []string
	for n := range sn.Tables {
		existing = append(existing, n)
	}
	sort.Strings(existing)
	kind := g.Pick(4, 2, 4, 3, 2, 2, 4, 3)
	if h.prop == "C20" {
		kind = g.Pick(4, 2, 6, 8, 2, 2, 2, 2)
	}
	if len(existing) == 0 {
		kind = 0
	}
	var r adminReq
	switch kind {
	case 0, 1:
		r.kind = []string{"create", "ensure"}[kind]
		r.tbl = h.pick(tableNames)
		r.cols = h.subset(colNames, 1, 4)
		_, exists := sn.Tables[r.tbl]
		r.idxs = h.genIndexes(r.cols, sn, r.tbl, kind == 0 || !exists || g.Coin(1, 2))
		r.text = fmt.Sprintf("%s %s (%s) %s", r.kind, r.tbl, strings.Join(r.cols, ","), strings.Join(r.idxs, " "))
		if kind == 0 && exists {
			r.mustFail = "create of an existing table"
		}
	case 2:
		r.kind = "altercreate"
		r.tbl = h.pick(existing)
		t := sn.Tables[r.tbl]
		var newc []string
		for _, c := range colNames {
			if !containsStr(t.Cols, c) && g.Coin(1, 3) {
				newc = append(newc, c)
			}
		}
		all := append(liveCols(t), newc...)
		r.cols = newc
		r.idxs = h.genIndexes(all, sn, r.tbl, false)
		if len(newc) == 0 && len(r.idxs) == 0 {
			r.idxs = []string{"index(" + h.pick(all) + ")"}
		}
		r.text = fmt.Sprintf("alter %s create (%s) %s", r.tbl, strings.Join(newc, ","), strings.Join(r.idxs, " "))
		if len(newc) == 0 {
			r.text = fmt.Sprintf("alter %s create %s", r.tbl, strings.Join(r.idxs, " "))
		}
	case 3:
		r.kind = "alterdrop"
		r.tbl = h.pick(existing)
		t := sn.Tables[r.tbl]
		if g.Coin(1, 2) && len(t.Idx) > 0 {
			ix := t.Idx[g.Choose(len(t.Idx))]
			kw := map[byte]string{'k': "key", 'i': "index", 'u': "index unique"}[ix.Mode]
			r.idxs = []string{kw + "(" + strings.Join(ix.Cols, ",") + ")"}
			r.text = fmt.Sprintf("alter %s drop %s", r.tbl, r.idxs[0])
			nkeys := 0
			for _, x := range t.Idx {
				if x.Mode == 'k' {
					nkeys++
				}
			}
			if ix.Mode == 'k' && nkeys == 1 {
				r.mustFail = "dropping the last key"
			}
			if len(ix.FkToHere) > 0 {
				r.mustFail = "dropping an index that is a foreign key target"
			}
		} else {
			// mostly columns that can be dropped (live, not in an index), one or two at a time
			var free []string
			for _, c := range liveCols(t) {
				if !inAnyIndex(t, c) {
					free = append(free, c)
				}
			}
			if len(free) > 0 && !g.Coin(1, 4) {
				r.cols = h.subset(free, 1, 2)
			} else {
				r.cols = []string{h.pick(colNames)}
			}
			r.text = fmt.Sprintf("alter %s drop (%s)", r.tbl, strings.Join(r.cols, ","))
		}
	case 4:
		r.kind = "alterrename"
		r.tbl = h.pick(existing)
		t := sn.Tables[r.tbl]
		lc := liveCols(t)
		r.from = []string{h.pick(lc)}
		r.toc = []string{h.pick(colNames)}
		r.text = fmt.Sprintf("alter %s rename %s to %s", r.tbl, r.from[0], r.toc[0])
	case 5:
		r.kind = "rename"
		r.tbl = h.pick(existing)
		r.to = h.pick(tableNames)
		r.text = fmt.Sprintf("rename %s to %s", r.tbl, r.to)
		if _, ok := sn.Tables[r.to]; ok {
			r.mustFail = "rename to an existing table"
		}
	case 6:
		r.kind = "view"
		r.tbl = h.pick(viewNames)
		r.to = h.pick(tableNames)
		r.text = fmt.Sprintf("view %s = %s", r.tbl, r.to)
	case 7:
		r.kind = "drop"
		names := append(append([]string(nil), existing...), viewNames...)
		r.tbl = h.pick(names)
		r.text = "drop " + r.tbl
		if t, ok := sn.Tables[r.tbl]; ok {
			for _, ix := range t.Idx {
				for _, f := range ix.FkToHere {
					if f.Table != r.tbl {
						r.mustFail = "dropping a table that is a foreign key target"
					}
				}
			}
		} else if _, isView := sn.Views[r.tbl]; !isView {
			r.mustFail = "dropping a nonexistent table"
		}
	}
	return r
}

// doAdmin executes one admin request and checks the C21 obligations.
func (h *harness) doAdmin(r adminReq) bool {
	// the state before the request, and a read transaction that keeps looking at it
	var before *snap
	var rt0 *db19.ReadTran
	var err0 error
	h.s.Inspect(func() {
		rt0 = h.db.NewReadTran()
		before, err0 = takeSnap(h.db, rt0, true)
	})
	if err0 != nil {
		h.fail("C21/invariant", "", "%v", err0)
		return false
	}
	// its effect can be persisted before it returns, and it stays "in flight" until its
	// event has been appended to the history (the checks in between yield to the persister)
	h.inflight = true
	defer func() { h.inflight = false }()
	res := try(func() { query.DoAdmin(h.db, r.text, nil) })
	if res != "" {
		h.inflight = false // a refused request is no event
	}
	h.logf("admin %q -> %s", r.text, orOK(res))
	h.ri.Count("admin."+r.kind+":"+okOrFail(res), 1)
	after := h.snapNow(true)
	if after == nil {
		return false
	}
	// a published state never changes: the transaction that was started before the request
	// still sees exactly what it saw then, whether the request succeeded or not
	var again *snap
	h.s.Inspect(func() { again, err0 = takeSnap(h.db, rt0, true) })
	if err0 != nil {
		h.fail("C21/old-state-changed", "", "after %q (%s) a transaction started before it can no longer read its state: %v", r.text, orOK(res), err0)
		return false
	}
	if d := diffSnap(before, again, true); d != "" {
		h.fail("C21/old-state-changed", "", "after %q (%s) a transaction started before it sees a different database than when it started: %s", r.text, orOK(res), d)
		return false
	}
	if res != "" {
		if d := diffSnap(before, after, true); d != "" {
			h.fail("C21/failed-but-changed", "C21/failed-but-changed/"+r.kind, "request %q raised %q but the database changed: %s", r.text, res, d)
			return false
		}
		return true
	}
	if r.mustFail != "" {
		h.fail("C21/must-fail", "C21/must-fail/"+r.mustFail, "request %q succeeded, but %s must be refused", r.text, r.mustFail)
		return false
	}
	if msg := checkInvariants(h.db, after); msg != "" {
		h.fail("C21/invariant", "", "after %q: %s", r.text, msg)
		return false
	}
	// apply the request to the model of the rows
	switch r.kind {
	case "create", "ensure":
		if _, ok := h.rows[r.tbl]; !ok {
			h.rows[r.tbl] = map[string]map[string]string{}
		}
	case "alterdrop":
		for _, c := range r.cols {
			for _, row := range h.rows[r.tbl] {
				delete(row, c)
			}
		}
	case "alterrename":
		for _, row := range h.rows[r.tbl] {
			for i, f := range r.from {
				if v, ok := row[f]; ok {
					delete(row, f)
					row[r.toc[i]] = v
				}
			}
		}
	case "rename":
		h.rows[r.to] = h.rows[r.tbl]
		delete(h.rows, r.tbl)
	case "view":
		h.views[r.tbl] = r.to
	case "drop":
		if _, ok := h.views[r.tbl]; ok {
			delete(h.views, r.tbl)
		} else {
			delete(h.rows, r.tbl)
		}
	}
	h.refreshKeys(after)
	h.events = append(h.events, h.logicalModel())
	h.inflight = false
	// effects
	switch r.kind {
	case "create", "ensure", "altercreate":
		t, ok := after.Tables[r.tbl]
		if !ok {
			h.fail("C21/effect", "", "after %q table %s does not exist", r.text, r.tbl)
			return false
		}
		for _, c := range r.cols {
			if !containsStr(t.Cols, c) {
				h.fail("C21/effect", "", "after %q table %s has no column %s (%v)", r.text, r.tbl, c, t.Cols)
				return false
			}
		}
	case "drop":
		if _, ok := after.Tables[r.tbl]; ok {
			h.fail("C21/effect", "", "after %q table %s still exists", r.text, r.tbl)
			return false
		}
	case "rename":
		if _, ok := after.Tables[r.to]; !ok {
			h.fail("C21/effect", "", "after %q table %s does not exist", r.text, r.to)
			return false
		}
	}
	// data read through every index is unchanged: rows equal the model
	return h.compareRows(after, "after "+r.text)
}

func orOK(s string) string {
	if s == "" {
		return "ok"
	}
	return s
}

func okOrFail(s string) string {
	if s == "" {
		return "ok"
	}
	return "refused"
}

// refreshKeys re-keys the model rows by the implementation's first key of each table
// (schema changes can change which key comes first).
func (h *harness) refreshKeys(sn *snap) {
	for tn, t := range sn.Tables {
		var kc []string
		for _, ix := range t.Idx {
			if ix.Mode == 'k' {
				kc = ix.Cols
				break
			}
		}
		h.keyOf[tn] = kc
		old := h.rows[tn]
		nw := map[string]map[string]string{}
		for _, r := range old {
			nw[pkOf(kc, r)] = r
		}
		h.rows[tn] = nw
	}
}

// ---------------------------------------------------------------------------------------
// transactions (sequential: the concurrency in this harness is the background pipeline)

func (h *harness) doTran(sn *snap) bool {
	g := h.g
	var names []string
	for n := range sn.Tables {
		names = append(names, n)
	}
	sort.Strings(names)
	if len(names) == 0 {
		return true
	}
	ut := h.db.NewUpdateTran()
	if ut == nil {
		return true
	}
	nops := g.Range(1, 6)
	type pend struct {
		table string
		pk    string
		row   map[string]string // nil = delete
	}
	var pending []pend
	var desc []string
	view := map[string]map[string]map[string]string{}
	get := func(tn string) map[string]map[string]string {
		if view[tn] == nil {
			view[tn] = map[string]map[string]string{}
			for k, r := range h.rows[tn] {
				view[tn][k] = r
			}
		}
		return view[tn]
	}
	dead := false
	for i := 0; i < nops && !dead; i++ {
		tn := h.pick(names)
		t := sn.Tables[tn]
		cols := liveCols(t)
		kc := h.keyOf[tn]
		rows := get(tn)
		switch g.Pick(5, 3, 2) {
		case 0: // insert
			r := map[string]string{}
			var rb core.RecordBuilder
			for _, c := range t.Cols {
				v := ""
				if c != "-" && !g.Coin(1, 4) {
					v = val(fmt.Sprintf("%s%d", c, g.Choose(4)))
				}
				if c != "-" && containsStr(kc, c) && len(kc) == 1 {
					h.tokN++
					v = val(fmt.Sprintf("k%d", h.tokN%7))
				}
				if c != "-" && v != "" {
					r[c] = v
				}
				rb.AddRaw(v)
			}
			if g.Coin(1, 10) {
				// a large value, so that records use the wider offset classes
				big := val(strings.Repeat("x", 300+g.Choose(70000)))
				last := ""
				for _, c := range t.Cols {
					if c != "-" && !containsStr(kc, c) && !inAnyIndex(t, c) {
						last = c
					}
				}
				if last != "" {
					r[last] = big
					rb = core.RecordBuilder{}
					for _, c := range t.Cols {
						rb.AddRaw(r[c])
					}
				}
			}
			_ = cols
			res := try(func() { ut.Output(nil, tn, rb.Build()) })
			desc = append(desc, fmt.Sprintf("output %s %s -> %s", tn, short(renderRow(r)), orOK(res)))
			if res == "" {
				pk := pkOf(kc, r)
				rows[pk] = r
				pending = append(pending, pend{tn, pk, r})
			} else if strings.Contains(res, "aborted") || strings.Contains(res, "ended") {
				dead = true
			}
		case 1, 2: // update / delete an existing row
			if len(rows) == 0 {
				continue
			}
			var pks []string
			for pk := range rows {
				pks = append(pks, pk)
			}
			sort.Strings(pks)
			pk := h.pick(pks)
			old := rows[pk]
			// find the record through the first key
			var rb core.RecordBuilder
			for _, c := range t.Cols {
				rb.AddRaw(old[c])
			}
			pki := firstKey(t)
			key := ut.GetSchema(tn).Indexes[pki].Ixspec.Key(rb.Build())
			var rec *core.DbRec
			res := try(func() { rec = ut.Lookup(tn, pki, key) })
			if res != "" || rec == nil {
				if res == "" {
					h.fail("C04/rows-differ", "", "transaction lookup of %s %q found nothing although the row was committed", tn, pk)
					return false
				}
				dead = true
				continue
			}
			if g.Coin(1, 2) {
				res := try(func() { ut.Delete(nil, tn, rec.Off) })
				desc = append(desc, fmt.Sprintf("delete %s %q -> %s", tn, pk, orOK(res)))
				if res == "" {
					var casc func(tn string, r map[string]string)
					casc = func(tn string, r map[string]string) {
						pk := pkOf(h.keyOf[tn], r)
						if _, ok := get(tn)[pk]; !ok {
							return
						}
						delete(get(tn), pk)
						pending = append(pending, pend{tn, pk, nil})
						// cascading foreign keys pointing at this row
						for _, ix := range sn.Tables[tn].Idx {
							for _, f := range ix.FkToHere {
								if f.Mode&2 == 0 {
									continue
								}
								ccols := strings.Split(f.Cols, ",")
								var kids []map[string]string
								for _, k := range get(f.Table) {
									match, nonEmpty := true, false
									for j, c := range ix.Cols {
										if k[ccols[j]] != r[c] {
											match = false
										}
										if r[c] != "" {
											nonEmpty = true
										}
									}
									if match && nonEmpty {
										kids = append(kids, k)
									}
								}
								for _, k := range kids {
									casc(f.Table, k)
								}
							}
						}
					}
					casc(tn, old)
				} else if strings.Contains(res, "aborted") || strings.Contains(res, "ended") {
					dead = true
				}
			} else {
				nr := map[string]string{}
				for c, v := range old {
					nr[c] = v
				}
				var ncand []string
				for _, c := range liveCols(t) {
					if !containsStr(kc, c) && !inFkTarget(t, c) {
						ncand = append(ncand, c)
					}
				}
				if len(ncand) == 0 {
					continue
				}
				c := h.pick(ncand)
				nr[c] = val(fmt.Sprintf("%s%d", c, g.Choose(4)))
				var nb core.RecordBuilder
				for _, c := range t.Cols {
					nb.AddRaw(nr[c])
				}
				res := try(func() { ut.Update(nil, tn, rec.Off, nb.Build()) })
				desc = append(desc, fmt.Sprintf("update %s %q %s -> %s", tn, pk, c, orOK(res)))
				if res == "" {
					rows[pk] = nr
					pending = append(pending, pend{tn, pk, nr})
				} else if strings.Contains(res, "aborted") || strings.Contains(res, "ended") {
					dead = true
				}
			}
		}
	}
	abort := g.Coin(1, 8)
	if abort {
		ut.Abort()
		h.logf("tran [%s] -> aborted", strings.Join(desc, "; "))
		return true
	}
	h.inflight = true
	defer func() { h.inflight = false }()
	res := ut.Complete()
	if res != "" {
		h.inflight = false
	}
	h.logf("tran [%s] -> %s", strings.Join(desc, "; "), orOK(res))
	if res == "" {
		for _, p := range pending {
			if p.row == nil {
				delete(h.rows[p.table], p.pk)
			} else {
				h.rows[p.table][p.pk] = p.row
			}
		}
		h.events = append(h.events, h.logicalModel())
		h.inflight = false
		h.ri.Count("tran.committed", 1)
	} else {
		h.ri.Count("tran.failed", 1)
	}
	return true
}

func inFkTarget(t *tblSnap, c string) bool {
	for _, ix := range t.Idx {
		if len(ix.FkToHere) > 0 && containsStr(ix.Cols, c) {
			return true
		}
	}
	return false
}

func inAnyIndex(t *tblSnap, c string) bool {
	for _, ix := range t.Idx {
		if containsStr(ix.Cols, c) {
			return true
		}
	}
	return false
}

func firstKey(t *tblSnap) int {
	for i, ix := range t.Idx {
		if ix.Mode == 'k' {
			return i
		}
	}
	return 0
}

func short(s string) string {
	if len(s) > 80 {
		return s[:80] + fmt.Sprintf("...(%d bytes)", len(s))
	}
	return s
}

// ---------------------------------------------------------------------------------------

func (h *harness) burst() bool {
	g := h.g
	for i := g.Choose(6); i > 0 && !h.s.Over(); i-- {
		sn := h.snapNow(true)
		if sn == nil {
			return false
		}
		v := h.pick(viewNames)
		text := fmt.Sprintf("view %s = %s", v, h.pick(tableNames))
		if _, ok := sn.Views[v]; ok {
			text = "drop " + v
		}
		kind := "view"
		if strings.HasPrefix(text, "drop") {
			kind = "drop"
		}
		if !h.doAdmin(adminReq{text: text, kind: kind, tbl: v, to: strings.TrimPrefix(text, "view "+v+" = ")}) {
			return false
		}
		h.persist()
	}
	sn := h.snapNow(true)
	if sn == nil {
		return false
	}
	var free []string
	for _, n := range tableNames {
		if _, ok := sn.Tables[n]; !ok {
			free = append(free, n)
		}
	}
	if len(free) == 0 {
		return true
	}
	tn := h.pick(free)
	if !h.doAdmin(adminReq{text: fmt.Sprintf("create %s (a,b) key(a)", tn), kind: "create", tbl: tn, cols: []string{"a", "b"}}) {
		return false
	}
	for i := g.Choose(6); i > 0 && !h.s.Over(); i-- {
		sn := h.snapNow(true)
		if sn == nil || !h.doTran(sn) {
			return false
		}
		h.persist()
	}
	if h.s.Over() {
		return false
	}
	if !h.doAdmin(adminReq{text: "drop " + tn, kind: "drop", tbl: tn}) {
		return false
	}
	h.persist()
	return !h.s.Over()
}

// reincarnate: a table that has been persisted is dropped, a new table is renamed to its name
// and dropped again, with and without persists in between (the entry that the rename puts
// over the dropped table's tombstone must not hide the persisted table).
func (h *harness) reincarnate() bool {
	g := h.g
	sn := h.snapNow(true)
	if sn == nil {
		return false
	}
	var free []string
	for _, n := range tableNames {
		if _, ok := sn.Tables[n]; !ok {
			free = append(free, n)
		}
	}
	if len(free) < 2 {
		return true
	}
	u, t := free[0], free[1]
	if g.Coin(1, 2) {
		u, t = t, u
	}
	step := func(r adminReq) bool {
		if !h.doAdmin(r) || h.s.Over() {
			return false
		}
		if g.Coin(1, 5) {
			h.persist()
		}
		return !h.s.Over()
	}
	if !h.doAdmin(adminReq{text: fmt.Sprintf("create %s (a,b) key(a)", u), kind: "create", tbl: u, cols: []string{"a", "b"}}) {
		return false
	}
	h.persist()
	return step(adminReq{text: "drop " + u, kind: "drop", tbl: u}) &&
		step(adminReq{text: fmt.Sprintf("create %s (a,c) key(a)", t), kind: "create", tbl: t, cols: []string{"a", "c"}}) &&
		step(adminReq{text: fmt.Sprintf("rename %s to %s", t, u), kind: "rename", tbl: t, to: u}) &&
		step(adminReq{text: "drop " + u, kind: "drop", tbl: u})
}

// persist asks for an explicit persist: everything committed so far must be in it.
func (h *harness) persist() {
	floor := len(h.events) - 1
	var st *db19.DbState
	try(func() { st = h.db.Persist() })
	h.logf("persist")
	if st != nil {
		h.s.Inspect(h.observe)
		h.raiseFloor(st.Off, floor)
	}
}

// raiseFloor records that the state record at off (and every later one) contains at
// least the first floor+1 events of the history.
func (h *harness) raiseFloor(off uint64, floor int) {
	if os.Getenv("VERIF_DEBUG_ASOF") != "" {
		fmt.Fprintf(os.Stderr, "raiseFloor off=%d floor=%d nops=%d\n", off, floor, len(h.ops))
	}
	for i := range h.states {
		if h.states[i].off >= off && h.states[i].klo < floor {
			h.states[i].klo = floor
			if h.states[i].khi < floor {
				// the implementation says this state is still the current one: the operations
				// since it was written changed nothing (e.g. an ensure with nothing to do)
				h.states[i].khi = floor
			}
		}
	}
}

// restart: clean close, reopen, compare everything (C04).
func (h *harness) restart(final bool) bool {
	h.dbMu.Lock()
	defer h.dbMu.Unlock()
	before := h.snapNow(true)
	if before == nil {
		return false
	}
	if !h.compareRows(before, "before close") {
		return false
	}
	if msg := checkInvariants(h.db, before); msg != "" {
		h.fail("C21/invariant", "", "before close: %s", msg)
		return false
	}
	res := try(func() { h.db.Close() })
	if res != "" {
		h.fail("op-panic", "", "Close raised %s", res)
		return false
	}
	h.logf("close")
	// a clean close leaves everything in the last state record
	if n := len(h.states); n > 0 {
		h.raiseFloor(h.states[n-1].off, len(h.events)-1)
	}
	h.db = nil
	h.restarts++
	if !h.open(false) {
		return false
	}
	h.logf("reopen")
	after := h.snapNow(true)
	if after == nil {
		return false
	}
	if d := diffSnap(before, after, true); d != "" {
		h.fail("C04/reopen-differs", "", "after clean close and reopen the database differs: %s", d)
		return false
	}
	if msg := checkInvariants(h.db, after); msg != "" {
		h.fail("C21/invariant", "", "after reopen: %s", msg)
		return false
	}
	return h.compareRows(after, "after reopen")
}

func Run(s *simrt.Sim, mode string, ri *hkit.RunInfo) {
	h := &harness{s: s, ri: ri, prop: mode, g: s.Tape.Stream("gen"),
		rows: map[string]map[string]map[string]string{}, keyOf: map[string][]string{}, views: map[string]string{}, imageAt: map[int64]bool{}}
	g := h.g
	s.Context = func() string { return "history:\n  " + strings.Join(h.ops, "\n  ") }
	db19.VerifReset()
	db19.MaxAge = 20
	h.persistIv = time.Duration([]int{300, 1000, 3000, 10000, 60000}[g.Choose(5)]) * time.Millisecond
	prevSplit := btree.SetSplit([]int{4, 8, 20, 100}[g.Choose(4)])
	defer btree.SetSplit(prevSplit)
	simmaphash.Bits.Store(int32([]int{0, 0, 16, 6, 4, 3}[g.Choose(6)]))
	defer simmaphash.Bits.Store(0)
	simmaphash.Salt.Store(g.Uint64())
	defer simmaphash.Salt.Store(0)
	simmaphash.Slots.Store(int32([]int{0, 0, 1, 2, 3}[g.Choose(5)]))
	defer simmaphash.Slots.Store(0)
	options.Nworkers = g.Range(1, 4)
	db19.MakeSuTran = func(ut *db19.UpdateTran) *core.SuTran { return core.NewSuTran(nil, true) }
	core.Exit = func(code int) { panic(simrt.Fatal{Msg: fmt.Sprintf("core.Exit(%d)", code)}) }

	dir, err := os.MkdirTemp(workDir, "run")
	if err != nil {
		s.Machine("mkdir: %v", err)
		return
	}
	defer func() { os.Chdir(workDir); os.RemoveAll(dir) }()
	h.dir, _ = filepath.Abs(dir)
	h.file = filepath.Join(h.dir, "suneido.db")
	// the tools and repair create their temporary files in the current directory
	os.Chdir(h.dir)

	nops := g.Range(5, 40)
	if os.Getenv("VERIF_TIER") == "thorough" {
		nops = g.Range(5, 90)
	}
	if mode == "C05" {
		nops = g.Range(4, 20)
	}
	// crash image points (C05): tape-chosen step numbers
	nimg := 0
	if mode == "C05" || mode == "ALL" {
		nimg = g.Range(1, 3)
	}
	for i := 0; i < nimg; i++ {
		h.imageAt[int64(200+g.Choose(20000))] = true
	}

	if !h.open(true) {
		return
	}
	h.logf("create database")
	h.events = append(h.events, h.logicalModel()) // event 0: the empty database
	s.OnYield(func() { h.observe(); h.maybeImage() })
	s.OnStep(func() { h.observe(); h.maybeImage() })

	historyDone := false
	if mode == "C19" || mode == "ALL" {
		// historical lookups "a moment ago" while persists are in progress: the answer given
		// then must still be the right one when all states are known at the end
		gs := s.Tape.Stream("asof-reader")
		type futureQ struct {
			f  int64
			db *db19.Database
		}
		var future []futureQ
		s.GoNamed("asof-reader", func() {
			for !historyDone && !s.Over() {
				simrt.Sleep(time.Duration(1+gs.Choose(2500)) * time.Millisecond)
				if historyDone || s.Over() {
					return
				}
				h.dbMu.Lock()
				if h.db != nil {
					now := simrt.Now().UnixMilli()
					t := now - int64(gs.Choose(3000)) - 1
					switch {
					case gs.Coin(1, 4):
						// a time that is still in the future (a client whose clock is ahead): the
						// answer is the current state; the same time is asked again once it has passed
						f := now + 1 + int64(gs.Choose(3000))
						try(func() { h.db.NewReadTran().Asof(f) })
						future = append(future, futureQ{f, h.db})
						t = 0
					case len(future) > 0 && future[0].f < now:
						if future[0].db == h.db {
							t = future[0].f
							h.ri.Count("asof.future-time-asked-again", 1)
						}
						future = future[1:]
					}
					if t != 0 {
						var r int64
						res := try(func() { r = h.db.NewReadTran().Asof(t) })
						if res == "" && r != 0 {
							h.asofLog = append(h.asofLog, asofQuery{t, r})
							h.ri.Count("asof.concurrent-queries", 1)
						}
					}
				}
				h.dbMu.Unlock()
			}
		})
	}
	defer func() { historyDone = true }()
	// weights: admin tran persist think restart
	w := []int{4, 8, 2, 3, 1, 1}
	switch mode {
	case "C21":
		w = []int{10, 5, 3, 2, 1, 1}
	case "C19":
		w = []int{2, 8, 5, 4, 1, 0}
	case "C05":
		w = []int{3, 8, 4, 3, 1, 0}
	case "C20":
		w = []int{7, 8, 2, 2, 1, 0}
	}
	for i := 0; i < nops && !s.Over(); i++ {
		sn := h.snapNow(true)
		if sn == nil {
			return
		}
		switch g.Pick(w...) {
		case 0:
			if !h.doAdmin(h.genAdmin(sn)) {
				return
			}
			// schema-only persists matter: often follow an admin request with a persist
			if g.Coin(1, 2) && !s.Over() {
				h.persist()
			}
		case 1:
			if !h.doTran(sn) {
				return
			}
		case 2:
			h.persist()
		case 3:
			d := time.Duration([]int{1, 50, 700, 3000, 20000, 70000}[g.Choose(6)]) * time.Millisecond
			simrt.Sleep(d)
			h.logf("think %v", d)
		case 4:
			if !h.restart(false) {
				return
			}
		case 5:
			// a burst: several schema-only persists, a new table, several data-only
			// persists, then the table is dropped (the two metadata chains have separate
			// persist counters; this drives them apart and together again)
			if g.Coin(1, 3) {
				if !h.reincarnate() {
					return
				}
			} else if !h.burst() {
				return
			}
		}
	}
	if s.Over() {
		return
	}
	if mode == "C19" || mode == "ALL" {
		if !h.checkAsof() {
			return
		}
	}
	// final clean close and reopen
	if !h.restart(true) || s.Over() {
		return
	}
	if mode == "C19" || mode == "ALL" {
		if !h.checkAsof() {
			return
		}
	}
	historyDone = true
	h.dbMu.Lock()
	final := h.snapNow(false)
	res := try(func() { h.db.Close() })
	h.dbMu.Unlock()
	if res != "" {
		h.fail("op-panic", "", "final Close raised %s", res)
		return
	}
	if n := len(h.states); n > 0 {
		h.raiseFloor(h.states[n-1].off, len(h.events)-1)
	}
	h.db = nil
	if s.Over() {
		return
	}
	if mode == "C20" || mode == "ALL" {
		if !h.checkTools(final) {
			return
		}
	}
	if mode == "C05" || mode == "ALL" {
		if !h.checkCrashes() {
			return
		}
	}
	ri.Count("history.ops", int64(len(h.ops)))
	ri.Count("restarts", int64(h.restarts))
	ri.Count("persisted-states", int64(len(h.states)))
	ri.Nontrivial = len(h.states) >= 2 && len(final.Tables) >= 1
	ops := h.ops
	if len(ops) > 30 {
		ops = ops[:30]
	}
	ri.Sample = map[string]any{"history": ops, "persisted_states": len(h.states), "restarts": h.restarts, "policy": s.PolicyName()}
}

var _ = iface.All
