package hprobe

import (
	"testing"

	_ "github.com/apmckinlay/gsuneido/db19"
	_ "github.com/apmckinlay/gsuneido/db19/tools"
	_ "github.com/apmckinlay/gsuneido/dbms"
)

func TestX(t *testing.T) {}
