// H1 pqsim: util/queue.PriorityQueue under every interleaving of producers and the
// single consumer (property C17).
package h1pq

import (
	"fmt"
	"strings"
	"testing"
	"time"

	"github.com/anishathalye/porcupine"
	"github.com/apmckinlay/gsuneido/util/queue"

	"verifsim/hkit"
	"verifsim/simrt"
	"verifsim/simrt/simsync"
)

type msg struct {
	Prod, Tran, Prio, Val int
}

type opIn struct {
	Put  bool
	Prio int
	Tran int
	Val  int
}

type event struct {
	client   int
	in       opIn
	out      int
	call, rt int64
}

func TestSim(t *testing.T) {
	hkit.Main(t, hkit.Harness{
		Name: "h1pq",
		Config: func(mode string) simrt.Config {
			c := simrt.DefaultConfig()
			c.MaxSteps, c.FairSteps = 20_000, 20_000
			return c
		},
		Main:       run,
		After:      after,
		Components: map[string]string{"util/queue.PriorityQueue": "real", "sync.Mutex/Cond": "simulated (simsync)", "checker": "stub: one consumer task calling Get"},
	})
}

func run(s *simrt.Sim, mode string, ri *hkit.RunInfo) {
	g := s.Tape.Stream("gen")
	nprod := g.Range(2, 6)
	var plan [][]msg
	total := 0
	val := 0
	for p := 0; p < nprod; p++ {
		n := g.Range(1, 8)
		if total+n > 40 {
			n = 40 - total
		}
		ntid := g.Range(1, 2)
		var ms []msg
		for i := 0; i < n; i++ {
			tr := 0
			if !g.Coin(1, 5) {
				tr = (p+1)*10 + g.Choose(ntid)
			}
			val++
			ms = append(ms, msg{Prod: p, Tran: tr, Prio: g.Choose(4), Val: val})
		}
		total += n
		plan = append(plan, ms)
	}
	pq := queue.NewPriorityQueue()
	var seq int64
	var events []event
	var wg simsync.WaitGroup
	for p := range plan {
		p := p
		wg.Add(1)
		s.GoNamed(fmt.Sprintf("prod%d", p), func() {
			defer wg.Done()
			for _, m := range plan[p] {
				seq++
				c := seq
				pq.Put(m.Prio, m.Tran, m.Val)
				seq++
				events = append(events, event{client: p, in: opIn{Put: true, Prio: m.Prio, Tran: m.Tran, Val: m.Val}, call: c, rt: seq})
				s.Note("put p%d v%d", p, m.Val)
			}
		})
	}
	var got []int
	wg.Add(1)
	s.GoNamed("consumer", func() {
		defer wg.Done()
		for i := 0; i < total; i++ {
			seq++
			c := seq
			v := pq.Get().(int)
			seq++
			events = append(events, event{client: nprod, in: opIn{}, out: v, call: c, rt: seq})
			got = append(got, v)
			s.Note("get v%d", v)
		}
	})
	wg.Wait()
	if s.Failed() != nil {
		return
	}

	// (a) exactly once
	byVal := map[int]msg{}
	for _, ms := range plan {
		for _, m := range ms {
			byVal[m.Val] = m
		}
	}
	seen := map[int]bool{}
	for _, v := range got {
		if _, ok := byVal[v]; !ok {
			s.Fail("C17/exactly-once", "", "delivered value %d was never put", v)
			return
		}
		if seen[v] {
			s.Fail("C17/exactly-once", "", "value %d delivered twice", v)
			return
		}
		seen[v] = true
	}
	if len(got) != total {
		s.Fail("C17/exactly-once", "", "put %d messages, delivered %d", total, len(got))
		return
	}
	// (b) per producer and transaction FIFO
	last := map[[2]int]int{}
	for _, v := range got {
		m := byVal[v]
		k := [2]int{m.Prod, m.Tran}
		if v < last[k] {
			s.Fail("C17/fifo", "", "producer %d tran %d: message %d delivered after %d, but was sent before it", m.Prod, m.Tran, v, last[k])
			return
		}
		last[k] = v
	}
	// (c) linearizability against the sequential specification: checked after the bubble
	// has ended (porcupine's timeout needs the real clock)
	ri.History = events
	ri.Count("messages", int64(total))
	// non-trivial: some put overlapped another operation and priorities differed
	overl := 0
	for i, e := range events {
		for j := i + 1; j < len(events); j++ {
			f := events[j]
			if e.client != f.client && e.call < f.rt && f.call < e.rt {
				overl++
			}
		}
	}
	ri.Count("overlapping-op-pairs", int64(overl))
	ri.Nontrivial = overl > 0 && total >= 3
	ri.Sample = map[string]any{"plan": plan, "delivered": got, "policy": s.PolicyName()}
}

func describe(ev []event) string {
	var sb strings.Builder
	for _, e := range ev {
		if e.in.Put {
			fmt.Fprintf(&sb, "[%d,%d]c%d put(prio=%d tran=%d v=%d) ", e.call, e.rt, e.client, e.in.Prio, e.in.Tran, e.in.Val)
		} else {
			fmt.Fprintf(&sb, "[%d,%d]get=%d ", e.call, e.rt, e.out)
		}
	}
	return sb.String()
}

// sequential specification: state is the arrival-ordered list of pending messages.
// Get returns an element that is the oldest of its transaction and has maximal priority
// among the oldest elements of all transactions; ties are not constrained.
// The state is encoded as a string (3 bytes per element: prio, tran, val) so that
// porcupine's state comparison is a string comparison.
var pqModel = porcupine.Model{
	Init: func() any { return "" },
	Step: func(state, input, output any) (bool, any) {
		st := state.(string)
		in := input.(opIn)
		if in.Put {
			return true, st + string([]byte{byte(in.Prio), byte(in.Tran), byte(in.Val)})
		}
		out := byte(output.(int))
		best := -1
		idx := -1
		var seen [256]bool
		for i := 0; i < len(st); i += 3 {
			prio, tran, val := int(st[i]), st[i+1], st[i+2]
			if seen[tran] {
				continue
			}
			seen[tran] = true
			if prio > best {
				best = prio
			}
			if val == out {
				idx = i
			}
		}
		if idx < 0 || int(st[idx]) != best {
			return false, st
		}
		return true, st[:idx] + st[idx+3:]
	},
}

func after(mode string, ri *hkit.RunInfo) *simrt.Failure {
	events, _ := ri.History.([]event)
	if events == nil {
		return nil
	}
	ops := make([]porcupine.Operation, len(events))
	for i, e := range events {
		ops[i] = porcupine.Operation{ClientId: e.client, Input: e.in, Call: e.call, Output: e.out, Return: e.rt}
	}
	switch porcupine.CheckOperationsTimeout(pqModel, ops, 1*time.Second) {
	case porcupine.Illegal:
		return &simrt.Failure{Oracle: "C17/linearizable", Sig: "C17/linearizable",
			Message: "history is not linearizable against the priority-queue specification: " + describe(events)}
	case porcupine.Unknown:
		ri.Count("porcupine.unknown", 1)
	default:
		ri.Count("porcupine.ok", 1)
	}
	return nil
}
