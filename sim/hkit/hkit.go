// Package hkit is the worker side of a check: it runs seeds of one harness inside the
// simulator, writes replay files for failures and reports statistics to the driver.
package hkit

import (
	"encoding/json"
	"fmt"
	"os"
	"path/filepath"
	"sort"
	"strconv"
	"strings"
	"testing"
	"time"

	"verifsim/simrt"
)

// RunInfo is filled by the harness during a run.
type RunInfo struct {
	Nontrivial bool
	Sample     any              // the generated workload and its outcome, for evidence
	Counters   map[string]int64 // harness level probes
	Components map[string]string
	History    any // recorded history handed from Main to After
}

func (ri *RunInfo) Count(name string, n int64) {
	if ri.Counters == nil {
		ri.Counters = map[string]int64{}
	}
	ri.Counters[name] += n
}

// Harness describes one simulated system.
type Harness struct {
	Name       string
	Config     func(mode string) simrt.Config
	Main       func(s *simrt.Sim, mode string, ri *RunInfo)
	Components map[string]string // component -> "real" | "stub: ..."
	// After runs on the test goroutine after the bubble has ended (outside the simulation).
	// It may return a failure found by an expensive oracle over the recorded history.
	After func(mode string, ri *RunInfo) *simrt.Failure
	// Warmup runs once per process, outside any simulation, before the first run.
	Warmup func(mode string)
	// WarmupRuns is the number of discarded simulated runs executed at process start so
	// that lazily initialised process-global state (first-use caches, sync.Once, name
	// tables) is the same for every counted run, whatever ran before it.
	WarmupRuns int
}

// Msg is one line of the worker protocol (JSON on stdout, prefixed with "@@").
type Msg struct {
	Type      string           `json:"type"` // "fail" | "stats" | "run"
	Seed      uint64           `json:"seed,omitempty"`
	Oracle    string           `json:"oracle,omitempty"`
	Sig       string           `json:"sig,omitempty"`
	Message   string           `json:"message,omitempty"`
	Replay    string           `json:"replay,omitempty"`
	Machine   bool             `json:"machine,omitempty"`
	Digest    string           `json:"digest,omitempty"`
	Runs      int64            `json:"runs,omitempty"`
	Nontriv   int64            `json:"nontrivial,omitempty"`
	Steps     int64            `json:"steps,omitempty"`
	Switches  int64            `json:"switches,omitempty"`
	SimNanos  int64            `json:"sim_ns,omitempty"`
	Stats     map[string]int64 `json:"stats,omitempty"`
	Sigs      []string         `json:"sigs,omitempty"` // digests of non-trivial runs (for distinct count)
	Samples   []any            `json:"samples,omitempty"`
	Policies  map[string]int64 `json:"policies,omitempty"`
	WallS     float64          `json:"wall_s,omitempty"`
	FirstSeed uint64           `json:"first_seed,omitempty"`
	LastSeed  uint64           `json:"last_seed,omitempty"`
}

func emit(m *Msg) {
	b, _ := json.Marshal(m)
	os.Stdout.WriteString("@@" + string(b) + "\n")
}

func envInt(name string, def int64) int64 {
	if v := os.Getenv(name); v != "" {
		n, err := strconv.ParseInt(v, 10, 64)
		if err == nil {
			return n
		}
	}
	return def
}

// Main is called from the harness's TestSim.
//
// Environment:
//
//	VERIF_MODE      property / mix selector passed to the harness
//	VERIF_PROPERTY  property id (for replay files)
//	VERIF_FIRST     first seed, VERIF_STRIDE seed stride, VERIF_COUNT max runs (0 = until time)
//	VERIF_SECONDS   wall clock budget
//	VERIF_REPLAY    replay file to run instead of seeds
//	VERIF_REPLAYDIR where replay files are written
//	VERIF_CONTINUE  keep going after a failure (driver handles known findings)
//	VERIF_DIGESTS   emit a "run" line with the digest of every run (determinism self-test)
func Main(t *testing.T, h Harness) {
	// let goroutines started by package initialisers (dbms/query starts one that sleeps for
	// hours) reach their first blocking call before any simulation is active
	time.Sleep(30 * time.Millisecond)
	mode := os.Getenv("VERIF_MODE")
	prop := os.Getenv("VERIF_PROPERTY")
	if h.Warmup != nil {
		h.Warmup(mode)
	}
	for i := 0; i < h.WarmupRuns; i++ {
		runOne(t, h, mode, simrt.NewTape(uint64(0xabcdef00+i)), &RunInfo{})
	}
	if replay := os.Getenv("VERIF_REPLAY"); replay != "" {
		rf, err := simrt.ReadReplayFile(replay)
		if err != nil {
			fmt.Println("cannot read replay file:", err)
			os.Exit(2)
		}
		if rf.Mode != "" {
			mode = rf.Mode
		}
		var tape *simrt.Tape
		if rf.Streams == nil {
			tape = simrt.NewTape(rf.Seed)
		} else {
			tape = simrt.NewReplayTape(rf.Seed, rf.Streams)
		}
		ri := &RunInfo{}
		res := runOne(t, h, mode, tape, ri)
		m := &Msg{Type: "run", Seed: rf.Seed, Digest: fmt.Sprintf("%016x", res.Digest), Steps: res.Steps}
		if res.Failure != nil {
			m.Type = "fail"
			m.Oracle, m.Sig, m.Message, m.Machine = res.Failure.Oracle, res.Failure.Sig, res.Failure.Message, res.Failure.Machine
			if os.Getenv("VERIF_VERBOSE") != "" {
				for _, l := range res.Trace {
					fmt.Println(l)
				}
				fmt.Println(res.Failure.Message)
			}
		}
		emit(m)
		return
	}

	first := uint64(envInt("VERIF_FIRST", 1))
	stride := uint64(envInt("VERIF_STRIDE", 1))
	count := envInt("VERIF_COUNT", 0)
	seconds := envInt("VERIF_SECONDS", 10)
	cont := os.Getenv("VERIF_CONTINUE") != ""
	digests := os.Getenv("VERIF_DIGESTS") != ""
	dir := os.Getenv("VERIF_REPLAYDIR")
	if dir == "" {
		dir = "."
	}
	tier := os.Getenv("VERIF_TIER")
	start := time.Now()
	agg := &Msg{Type: "stats", Stats: map[string]int64{}, Policies: map[string]int64{}, FirstSeed: first}
	seed := first
	nfail := 0
	for n := int64(0); count == 0 || n < count; n++ {
		if time.Since(start) > time.Duration(seconds)*time.Second {
			break
		}
		ri := &RunInfo{}
		tape := simrt.NewTape(seed)
		res := runOne(t, h, mode, tape, ri)
		agg.Runs++
		agg.Steps += res.Steps
		agg.Switches += res.Switches
		agg.SimNanos += int64(res.SimTime)
		agg.LastSeed = seed
		agg.Policies[res.Policy]++
		for k, v := range res.Stats {
			agg.Stats[k] += v
		}
		if res.Abandoned != "" {
			agg.Stats["abandoned."+res.Abandoned]++
		}
		for k, v := range ri.Counters {
			agg.Stats[k] += v
		}
		if ri.Nontrivial {
			agg.Nontriv++
			if len(agg.Sigs) < 200000 {
				agg.Sigs = append(agg.Sigs, fmt.Sprintf("%016x", res.Digest))
			}
		}
		if ri.Sample != nil && len(agg.Samples) < 2 && (ri.Nontrivial || n > 20) {
			agg.Samples = append(agg.Samples, ri.Sample)
		}
		if digests {
			emit(&Msg{Type: "run", Seed: seed, Digest: fmt.Sprintf("%016x", res.Digest), Steps: res.Steps})
		}
		if f := res.Failure; f != nil {
			nfail++
			rf := &simrt.ReplayFile{Property: prop, Harness: h.Name, Mode: mode, Oracle: f.Oracle, Signature: f.Sig,
				Message: f.Message, Seed: seed, Tier: tier, Streams: res.Streams, Trace: res.Trace}
			path := filepath.Join(dir, fmt.Sprintf("%s-%s-%d.json", prop, sanitize(f.Oracle), seed))
			if err := rf.Write(path); err != nil {
				fmt.Println("cannot write replay file:", err)
				os.Exit(2)
			}
			emit(&Msg{Type: "fail", Seed: seed, Oracle: f.Oracle, Sig: f.Sig, Message: f.Message, Replay: path, Machine: f.Machine})
			if !cont || f.Machine || nfail > 50 {
				break
			}
		}
		seed += stride
	}
	agg.WallS = time.Since(start).Seconds()
	emit(agg)
}

func sanitize(s string) string {
	return strings.Map(func(r rune) rune {
		if r >= 'a' && r <= 'z' || r >= 'A' && r <= 'Z' || r >= '0' && r <= '9' || r == '-' {
			return r
		}
		return '_'
	}, s)
}

func runOne(t *testing.T, h Harness, mode string, tape *simrt.Tape, ri *RunInfo) *simrt.Result {
	cfg := simrt.DefaultConfig()
	if h.Config != nil {
		cfg = h.Config(mode)
	}
	res := simrt.Run(t, tape, cfg, func(s *simrt.Sim) {
		h.Main(s, mode, ri)
	})
	if h.After != nil && res.Failure == nil {
		res.Failure = h.After(mode, ri)
	}
	return res
}

// SortedKeys returns the sorted keys of a counter map.
func SortedKeys(m map[string]int64) []string {
	var ks []string
	for k := range m {
		ks = append(ks, k)
	}
	sort.Strings(ks)
	return ks
}
