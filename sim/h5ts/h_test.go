// H5 tssim: timestamps handed out by the database directly and through the client side
// batching must be unique and increasing for each caller (property C34).
package h5ts

import (
	"fmt"
	"testing"
	"time"

	"github.com/apmckinlay/gsuneido/core"
	"github.com/apmckinlay/gsuneido/db19"

	"verifsim/hkit"
	"verifsim/simrt"
	"verifsim/simrt/simsync"
)

// tsDbms is the 3-line stub through which the client reaches the server
// (the protocol itself is covered by H6).
type tsDbms struct {
	core.IDbms
	// fault: the request to the server fails (0: never; 1: before the server saw it; 2: the
	// reply is lost), as a server error or a lost connection does in the real client
	fail func() int
}

func (d *tsDbms) Timestamp() core.SuDate {
	f := 0
	if d.fail != nil {
		f = d.fail()
	}
	if f == 1 {
		panic("timestamp request failed (injected)")
	}
	t := db19.Timestamp()
	if f == 2 {
		panic("timestamp reply lost (injected)")
	}
	return t
}
func (d *tsDbms) Unwrap() core.IDbms { return d }

func TestSim(t *testing.T) {
	hkit.Main(t, hkit.Harness{
		Name: "h5ts",
		Config: func(mode string) simrt.Config {
			c := simrt.DefaultConfig()
			c.MaxSteps, c.FairSteps = 60_000, 60_000
			c.AdvanceNum, c.AdvanceDen = 1, 20
			c.QuantaMs = []int{1, 1, 2, 5, 20, 100, 400, 999, 1000, 1001, 2500, 30000}
			return c
		},
		Main:       run,
		WarmupRuns: 2,
	})
}

type got struct {
	who int
	v   core.Value
	at  time.Duration
}

func run(s *simrt.Sim, mode string, ri *hkit.RunInfo) {
	g := s.Tape.Stream("gen")
	db19.VerifReset()
	core.VerifResetTimestamps()
	// from any starting millisecond
	time.Sleep(time.Duration(g.Choose(1000)) * time.Millisecond)
	db19.StartTimestamps()
	nclient := g.Range(1, 4) // goroutines sharing the client side batching
	ndirect := g.Range(0, 3) // other clients / the server's own code
	jumps := g.Choose(3)
	var all []got
	var wg simsync.WaitGroup
	dbms := &tsDbms{}
	if g.Coin(1, 2) {
		fs := s.Tape.Stream("reqfail")
		den := []int{3, 10, 40}[g.Choose(3)]
		dbms.fail = func() int {
			if fs.Coin(1, den) {
				s.Count("fault.timestamp-request-failed", 1)
				return 1 + fs.Choose(2)
			}
			return 0
		}
	}
	caller := func(who int, client bool, n int, gs *simrt.Stream) {
		defer wg.Done()
		th := core.NewThread(nil)
		th.SetDbms(dbms)
		var prev core.Value
		for i := 0; i < n && !s.Over(); i++ {
			var v core.Value
			if client {
				// a failed request is an exception in the calling code, which carries on
				func() {
					defer func() {
						if e := recover(); e != nil {
							if _, ok := e.(string); !ok {
								panic(e)
							}
						}
					}()
					v = th.Timestamp()
				}()
				if v == nil {
					continue
				}
			} else {
				v = db19.Timestamp()
			}
			all = append(all, got{who, v, s.Elapsed()})
			if prev != nil && v.Compare(prev) <= 0 {
				s.Fail("C34/not-increasing", "", "caller %d (%s) received %v after %v", who, kind(client), v, prev)
				return
			}
			prev = v
			switch gs.Pick(6, 2, 1, 1) {
			case 1:
				simrt.Sleep(time.Duration(1+gs.Choose(20)) * time.Millisecond)
			case 2:
				simrt.Sleep(time.Duration(200+gs.Choose(1500)) * time.Millisecond)
			case 3:
				simrt.Sleep(time.Duration(1+gs.Choose(30)) * time.Second)
			}
		}
	}
	for c := 0; c < nclient; c++ {
		wg.Add(1)
		c := c
		n := g.Range(1, 40)
		if g.Coin(1, 6) {
			n = g.Range(200, 700) // long enough to exhaust a batch of 256
		}
		gs := s.Tape.Stream(fmt.Sprintf("caller%d", c))
		s.GoNamed(fmt.Sprintf("client%d", c), func() { caller(c, true, n, gs) })
	}
	for d := 0; d < ndirect; d++ {
		wg.Add(1)
		d := d
		n := g.Range(1, 40)
		gs := s.Tape.Stream(fmt.Sprintf("direct%d", d))
		s.GoNamed(fmt.Sprintf("direct%d", d), func() { caller(100+d, false, n, gs) })
	}
	if jumps > 0 {
		wg.Add(1)
		gs := s.Tape.Stream("jumps")
		s.GoNamed("clock", func() {
			defer wg.Done()
			for j := 0; j < jumps && !s.Over(); j++ {
				simrt.Sleep(time.Duration(gs.Choose(5000)) * time.Millisecond)
				d := time.Duration(gs.Choose(7200)-3600) * time.Second
				if gs.Coin(1, 2) {
					d = time.Duration(gs.Choose(4000)-2000) * time.Millisecond
				}
				s.SetSkew(d)
				s.Count("fault.clock-jump", 1)
				s.Note("clock skew %v", d)
			}
		})
	}
	wg.Wait()
	if s.Over() {
		return
	}
	// pairwise distinct, compared as packed values
	seen := map[string]got{}
	for _, x := range all {
		k := core.PackValue(x.v)
		if o, dup := seen[k]; dup {
			s.Fail("C34/duplicate", "", "timestamp %v handed out twice: to caller %d at %v and to caller %d at %v", x.v, o.who, o.at, x.who, x.at)
			return
		}
		seen[k] = x
	}
	ri.Count("timestamps", int64(len(all)))
	ri.Nontrivial = len(all) >= 5 && nclient+ndirect >= 2
	var sample []string
	for i, x := range all {
		if i >= 25 {
			break
		}
		sample = append(sample, fmt.Sprintf("%d:%v@%v", x.who, x.v, x.at))
	}
	ri.Sample = map[string]any{"clients": nclient, "direct": ndirect, "clock_jumps": jumps, "first": sample, "policy": s.PolicyName()}
}

func kind(client bool) string {
	if client {
		return "client batching"
	}
	return "server"
}
