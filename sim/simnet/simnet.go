// Package simnet is the simulated transport: an in-memory, in-bubble net.Conn pair with
// tape-driven short reads and writes, delays, stalls and resets. All blocking goes through
// the simulator's primitives, so every interleaving of the two ends is a scheduling choice.
package simnet

import (
	"errors"
	"io"
	"net"
	"os"
	"time"

	"verifsim/simrt"
	"verifsim/simrt/simsync"
)

type addr string

func (a addr) Network() string { return "sim" }
func (a addr) String() string  { return string(a) }

// half is one direction of the pipe.
type half struct {
	mu     simsync.Mutex
	cond   simsync.Cond
	buf    []byte
	closed bool // writer closed: reader gets EOF after draining
	reset  bool // connection reset: both directions fail
}

// Faults configures fault injection for a connection (nil = none).
type Faults struct {
	S          *simrt.Sim
	Stream     *simrt.Stream
	Enabled    bool
	FragNum    int // probability FragNum/FragDen that a write is fragmented / a read is short
	FragDen    int
	DelayNum   int // probability of a delay before delivering a fragment
	DelayDen   int
	MaxDelayMs int
	ResetNum   int // probability of a connection reset at a write
	ResetDen   int
	Count      func(string)
}

type Conn struct {
	name     string
	rd, wr   *half
	peer     *Conn
	f        *Faults
	rdl      time.Time
	localA   addr
	remoteA  addr
	closedMe bool
}

// Pipe returns the two ends of a simulated connection.
func Pipe(f *Faults) (client, server *Conn) {
	a, b := &half{}, &half{}
	a.cond.L, b.cond.L = &a.mu, &b.mu
	client = &Conn{name: "client", rd: a, wr: b, f: f, localA: "10.0.0.2:5000", remoteA: "10.0.0.1:3147"}
	server = &Conn{name: "server", rd: b, wr: a, f: f, localA: "10.0.0.1:3147", remoteA: "10.0.0.2:5000"}
	client.peer, server.peer = server, client
	return
}

var errReset = errors.New("connection reset by peer")

func (c *Conn) faults() *Faults {
	if c.f != nil && c.f.Enabled && c.f.S != nil && !c.f.S.Terminating() && !c.f.S.Inspecting() {
		return c.f
	}
	return nil
}

func (c *Conn) Read(p []byte) (int, error) {
	if len(p) == 0 {
		return 0, nil
	}
	h := c.rd
	h.mu.Lock()
	defer h.mu.Unlock()
	for len(h.buf) == 0 {
		if h.reset {
			return 0, errReset
		}
		if h.closed {
			return 0, io.EOF
		}
		if c.closedMe {
			return 0, net.ErrClosed
		}
		if !c.rdl.IsZero() && !time.Now().Before(c.rdl) {
			return 0, os.ErrDeadlineExceeded
		}
		h.cond.Wait()
		if s := simrt.Active(); s != nil && s.Terminating() {
			return 0, net.ErrClosed
		}
	}
	n := len(p)
	if n > len(h.buf) {
		n = len(h.buf)
	}
	if f := c.faults(); f != nil && n > 1 && f.Stream.Coin(f.FragNum, f.FragDen) {
		n = 1 + f.Stream.Choose(n-1) // short read
		f.Count("fault.short-read")
	}
	copy(p, h.buf[:n])
	h.buf = h.buf[n:]
	return n, nil
}

func (c *Conn) Write(p []byte) (int, error) {
	h := c.wr
	total := 0
	for len(p) > 0 {
		n := len(p)
		f := c.faults()
		if f != nil {
			if f.ResetDen > 0 && f.Stream.Coin(f.ResetNum, f.ResetDen) {
				f.Count("fault.connection-reset")
				c.doReset()
				return total, errReset
			}
			if n > 1 && f.Stream.Coin(f.FragNum, f.FragDen) {
				n = 1 + f.Stream.Choose(n-1)
				f.Count("fault.fragmented-write")
			}
			if f.DelayDen > 0 && f.Stream.Coin(f.DelayNum, f.DelayDen) {
				f.Count("fault.delivery-delay")
				simrt.Sleep(time.Duration(1+f.Stream.Choose(f.MaxDelayMs)) * time.Millisecond)
			}
		}
		h.mu.Lock()
		if h.reset || c.closedMe {
			h.mu.Unlock()
			if h.reset {
				return total, errReset
			}
			return total, net.ErrClosed
		}
		if h.closed {
			h.mu.Unlock()
			return total, io.ErrClosedPipe
		}
		h.buf = append(h.buf, p[:n]...)
		h.cond.Broadcast()
		h.mu.Unlock()
		total += n
		p = p[n:]
	}
	return total, nil
}

func (c *Conn) doReset() {
	for _, h := range []*half{c.rd, c.wr} {
		h.mu.Lock()
		h.reset = true
		h.cond.Broadcast()
		h.mu.Unlock()
	}
}

// Reset injects a connection reset from outside.
func (c *Conn) Reset() { c.doReset() }

func (c *Conn) Close() error {
	if c.closedMe {
		return nil
	}
	c.closedMe = true
	// the peer sees EOF on its read side
	h := c.wr
	h.mu.Lock()
	h.closed = true
	h.cond.Broadcast()
	h.mu.Unlock()
	// wake our own blocked reader
	r := c.rd
	r.mu.Lock()
	r.cond.Broadcast()
	r.mu.Unlock()
	return nil
}

func (c *Conn) LocalAddr() net.Addr  { return c.localA }
func (c *Conn) RemoteAddr() net.Addr { return c.remoteA }

func (c *Conn) SetDeadline(t time.Time) error { return c.SetReadDeadline(t) }

func (c *Conn) SetReadDeadline(t time.Time) error {
	c.rdl = t
	if t.IsZero() {
		return nil
	}
	d := time.Until(t)
	if d < 0 {
		d = 0
	}
	// a helper task wakes the reader when the deadline passes
	r := c.rd
	simrt.Go(func() {
		simrt.Sleep(d)
		r.mu.Lock()
		r.cond.Broadcast()
		r.mu.Unlock()
	})
	return nil
}

func (c *Conn) SetWriteDeadline(t time.Time) error { return nil }
