// H2 allocsim: stor.Stor.Alloc / extend under every interleaving of concurrent
// allocators (property C18).
package h2alloc

import (
	"fmt"
	"strings"
	"testing"
	"unsafe"

	"github.com/apmckinlay/gsuneido/db19/stor"

	"verifsim/hkit"
	"verifsim/simrt"
	"verifsim/simrt/simsync"
)

type alloc struct {
	Task, Seq, N int
	Off          uint64
	buf          []byte
	Failed       string
}

func TestSim(t *testing.T) {
	hkit.Main(t, hkit.Harness{
		Name: "h2alloc",
		Config: func(mode string) simrt.Config {
			c := simrt.DefaultConfig()
			c.MaxSteps, c.FairSteps = 20_000, 20_000
			return c
		},
		Main: run,
	})
}

func run(s *simrt.Sim, mode string, ri *hkit.RunInfo) {
	g := s.Tape.Stream("gen")
	chunk := 64 << g.Choose(7) // 64 .. 4096
	ntask := g.Range(2, 6)
	st := stor.HeapStor(chunk)
	// optionally start part way into the first chunk
	if g.Coin(1, 2) {
		n := 1 + g.Choose(chunk)
		st.Alloc(n)
	}
	var plan [][]int
	total := 0
	for t := 0; t < ntask; t++ {
		k := g.Range(1, 12)
		if total+k > 60 {
			k = 60 - total
		}
		var sizes []int
		for i := 0; i < k; i++ {
			var n int
			switch g.Choose(7) {
			case 0:
				n = 1
			case 1:
				n = chunk - 1
			case 2:
				n = chunk
			case 3:
				n = chunk/2 + g.Choose(3) - 1
			case 4:
				n = chunk/4 + g.Choose(3) - 1
			default:
				n = 1 + g.Choose(chunk)
			}
			if n < 1 {
				n = 1
			}
			if n > chunk {
				n = chunk
			}
			sizes = append(sizes, n)
		}
		total += k
		plan = append(plan, sizes)
	}
	var done []*alloc
	retries := 0
	var wg simsync.WaitGroup
	for t := range plan {
		t := t
		wg.Add(1)
		s.GoNamed(fmt.Sprintf("alloc%d", t), func() {
			defer wg.Done()
			for i, n := range plan[t] {
				a := &alloc{Task: t, Seq: i, N: n}
				func() {
					defer func() {
						if r := recover(); r != nil {
							msg := fmt.Sprint(r)
							if strings.Contains(msg, "too many retries") {
								// the permitted "fails loudly" outcome
								a.Failed = msg
								retries++
								return
							}
							panic(r)
						}
					}()
					a.Off, a.buf = st.Alloc(n)
				}()
				if a.Failed != "" {
					continue
				}
				s.Note("alloc t%d n=%d off=%d", t, n, a.Off)
				// fill with a pattern unique to this allocation
				for j := range a.buf {
					a.buf[j] = pattern(t, i, j)
				}
				done = append(done, a)
				s.Inspect(func() { checkOne(s, st, a, done, chunk) })
				if s.Failed() != nil {
					return
				}
			}
		})
	}
	wg.Wait()
	if s.Failed() != nil {
		return
	}
	s.Inspect(func() {
		for _, a := range done {
			checkOne(s, st, a, done, chunk)
			if s.Failed() != nil {
				return
			}
		}
	})
	ri.Count("allocations", int64(len(done)))
	ri.Count("too-many-retries", int64(retries))
	chunksUsed := map[uint64]bool{}
	for _, a := range done {
		chunksUsed[a.Off/uint64(chunk)] = true
	}
	ri.Count("chunks-extended", int64(len(chunksUsed)))
	ri.Nontrivial = len(chunksUsed) >= 2 && len(done) >= 3
	var sample []map[string]any
	for _, a := range done {
		sample = append(sample, map[string]any{"task": a.Task, "n": a.N, "off": a.Off})
	}
	ri.Sample = map[string]any{"chunksize": chunk, "allocations": sample, "policy": s.PolicyName()}
}

func pattern(t, i, j int) byte { return byte(1 + (t*37+i*11+j*7)%251) }

func checkOne(s *simrt.Sim, st *stor.Stor, a *alloc, all []*alloc, chunk int) {
	if len(a.buf) != a.N || cap(a.buf) != a.N {
		s.Fail("C18/slice", "", "Alloc(%d) returned slice with len %d cap %d", a.N, len(a.buf), cap(a.buf))
		return
	}
	first, last := a.Off/uint64(chunk), (a.Off+uint64(a.N)-1)/uint64(chunk)
	if first != last {
		s.Fail("C18/straddle", "", "allocation [%d,%d) straddles a chunk boundary (chunk size %d)", a.Off, a.Off+uint64(a.N), chunk)
		return
	}
	if a.Off+uint64(a.N) > st.Size() {
		s.Fail("C18/size", "", "allocation [%d,%d) lies beyond Size() = %d", a.Off, a.Off+uint64(a.N), st.Size())
		return
	}
	d := st.Data(a.Off)
	if len(d) < a.N || unsafe.SliceData(d) != unsafe.SliceData(a.buf) {
		s.Fail("C18/alias", "", "Data(%d) does not alias the slice returned by Alloc", a.Off)
		return
	}
	for _, b := range all {
		if b != a && a.Off < b.Off+uint64(b.N) && b.Off < a.Off+uint64(a.N) {
			s.Fail("C18/overlap", "", "allocations overlap: task %d [%d,%d) and task %d [%d,%d)", a.Task, a.Off, a.Off+uint64(a.N), b.Task, b.Off, b.Off+uint64(b.N))
			return
		}
		// memory-level check, independent of the offset arithmetic
		for j, c := range b.buf {
			if c != pattern(b.Task, b.Seq, j) {
				s.Fail("C18/overwritten", "", "bytes of allocation task %d #%d at offset %d were overwritten by another allocation", b.Task, b.Seq, b.Off)
				return
			}
		}
	}
}
