package h3txn

import (
	"fmt"
	"math"
	"os"
	"sort"
	"strings"
	"time"

	"github.com/apmckinlay/gsuneido/core"
	"github.com/apmckinlay/gsuneido/db19"
	"github.com/apmckinlay/gsuneido/db19/index"
	"github.com/apmckinlay/gsuneido/db19/index/btree"
	"github.com/apmckinlay/gsuneido/db19/index/iface"
	"github.com/apmckinlay/gsuneido/db19/index/ixkey"
	"github.com/apmckinlay/gsuneido/db19/meta/schema"
	"github.com/apmckinlay/gsuneido/db19/stor"
	"github.com/apmckinlay/gsuneido/dbms/query"
	"github.com/apmckinlay/gsuneido/options"

	"verifsim/hkit"
	"verifsim/simrt"
	"verifsim/simrt/simmaphash"
	"verifsim/simrt/simsync"
)

// oracle -> properties it decides. A run made for property P reports only failures of
// oracles that decide P; if another oracle fires the run is abandoned (the check of that
// other property reports it).
var oracleProps = map[string]string{
	"C01/serial-reexecution":    "C01",
	"C01/lost-update":           "C01",
	"C02/update-tran-read":      "C02",
	"C02/read-tran-read":        "C02",
	"C02/read-tran-repeat":      "C02",
	"C03/unattributed-change":   "C03 C16",
	"C03/applied-twice":         "C03 C16",
	"C03/applied-but-failed":    "C03",
	"C03/committed-not-applied": "C03 C16",
	"C03/commit-order":          "C03",
	"C03/counts":                "C03 C16",
	"C03/op-panic":              "C03",
	"C16/change-without-commit": "C16 C03",
	"C06/index-disagrees":       "C06",
	"C16/persisted-differs":     "C16 C06 C03",
	"C06/check-failed":          "C06 C16",
	"C06/stale-offset-accepted": "C06 C03",
	"C07/duplicate-in-state":    "C07",
	"C07/dup-not-detected":      "C07",
	"C07/spurious-dup":          "C07 C02",
	"C08/orphan-in-state":       "C08",
	"C08/fk-not-enforced":       "C08",
	"C08/spurious-fk-block":     "C08 C02",
	"task-panic":                "C03 C16 C06",
	"fatal":                     "C03 C16 C06",
	"stall":                     "C03 C16",
	"machinery":                 "*",
}

var debugLayers = os.Getenv("VERIF_DEBUGLAYERS") != ""

type txnStatus int

const (
	tActive txnStatus = iota
	tCompleting
	tCommitted
	tFailed  // Complete returned an error
	tAborted // explicit abort
)

type readRec struct {
	kind   string // "lookup" | "scan"
	table  string
	idx    int
	org    string
	end    string
	rev    bool
	max    int
	tokens []string
	eof    bool
	own    writeSet
}

type txn struct {
	id        int
	client    int
	ut        *db19.UpdateTran
	startVer  int
	v         *view
	reads     []readRec
	status    txnStatus
	appliedAt int
	dead      bool // the implementation reported the transaction as aborted
	stop      bool // issue no further operations
	result    string
	endSeq    int
	ops       []string
}

type version struct {
	state *db19.DbState
	model dbModel
	by    int   // txn id that produced it, -1 none, -2 one of cands (not yet known which)
	cands []int // several committing transactions with identical net writes matched
}

type harness struct {
	carry   map[int]*lastRead // per client: a row read in its previous transaction
	stalls  bool              // this run injects client stalls
	scratch []string          // scratch tables created before the tables of the workload
	s       *simrt.Sim
	ri      *hkit.RunInfo
	prop    string
	g       *simrt.Stream
	db      *db19.Database
	sm      *schemaModel
	sch     map[string]*schema.Schema

	versions  []version
	verOf     map[*db19.DbState]int
	lastState *db19.DbState
	txns      []*txn
	nextTxn   int
	tokN      int
	batchN    int
	family    string
	log       []string
}

func (h *harness) fail(oracle, sig, format string, args ...any) {
	props := oracleProps[oracle]
	if props == "*" || strings.Contains(props, h.prop) || h.prop == "ALL" {
		if sig == "" {
			sig = oracle
		}
		h.s.Fail(oracle, sig, format+"\n%s", append(args, h.history())...)
		return
	}
	h.s.Abandon("other-property-oracle:" + oracle)
}

func (h *harness) history() string {
	var sb strings.Builder
	sb.WriteString("schema: ")
	for _, tn := range h.sm.order {
		sb.WriteString(h.sm.tables[tn].admin() + fkText(h.sm.tables[tn]) + "; ")
	}
	sb.WriteString("\ntransactions:\n")
	for _, t := range h.txns {
		fmt.Fprintf(&sb, "  T%d client%d start@v%d status=%d applied@v%d result=%q ops: %s\n", t.id, t.client, t.startVer, t.status, t.appliedAt, t.result, strings.Join(t.ops, " | "))
	}
	return sb.String()
}

func fkText(t *tblDef) string {
	var out []string
	for _, ix := range t.Idx {
		if ix.FkTable != "" {
			out = append(out, fmt.Sprintf(" [%s in %s %s]", ixText(t, ix), ix.FkTable, modeName(ix.FkMode)))
		}
	}
	return strings.Join(out, "")
}

func (h *harness) key(table string, idx int, r row) string {
	return h.sch[table].Indexes[idx].Ixspec.Key(r.rec())
}

// ---------------------------------------------------------------------------------------
// reading the implementation's logical contents

type contents struct {
	primary dbModel
}

// readContents scans every index of every table of the current state through a fresh
// read transaction and checks the per-state invariants (C06, C07, C08, counts).
func (h *harness) readContents() *contents {
	return h.readContentsOf(h.db.NewReadTran())
}

func (h *harness) readContentsOf(rt *db19.ReadTran) *contents {
	c := &contents{primary: dbModel{}}
	// every invariant is evaluated; of the broken ones the first that belongs to the property
	// being checked is reported (a duplicate unique value also upsets the index comparison,
	// a wrong cascade also upsets the counts, ...)
	type finding struct{ oracle, sig, msg string }
	var found []finding
	add := func(oracle, sig, format string, args ...any) {
		found = append(found, finding{oracle, sig, fmt.Sprintf(format, args...)})
	}
nextTable:
	for _, tn := range h.sm.order {
		t := h.sm.tables[tn]
		ts := rt.GetSchema(tn)
		info := rt.GetInfo(tn)
		ncols := len(t.Cols)
		type ent struct {
			key string
			off uint64
		}
		var byIdx [][]ent
		for i := range ts.Indexes {
			it := rt.IndexIter(tn, i)
			it.Range(iface.All)
			var es []ent
			prev := ""
			for it.Next(rt); !it.Eof(); it.Next(rt) {
				k, off := it.Cur()
				if len(es) > 0 && k <= prev {
					add("C06/index-disagrees", "", "table %s index %d: keys not strictly increasing: %q after %q", tn, i, k, prev)
					continue nextTable
				}
				prev = k
				es = append(es, ent{k, off})
				if len(es) > 10000 {
					add("C06/index-disagrees", "", "table %s index %d: runaway iteration", tn, i)
					continue nextTable
				}
			}
			byIdx = append(byIdx, es)
		}
		pki := t.pkIdx()
		offs := map[uint64]row{}
		var bytes int64
		tbl := tableState{}
		for _, e := range byIdx[pki] {
			rec := rt.GetRecord(e.off)
			r := rowFromRec(rec, ncols)
			offs[e.off] = r
			bytes += int64(rec.Len())
			pk := h.sm.pk(tn, r)
			if _, dup := tbl[pk]; dup {
				add("C07/duplicate-in-state", "", "table %s: two visible rows with key %q", tn, pk)
			}
			tbl[pk] = r
		}
		c.primary[tn] = tbl
		// C07: keys and unique indexes (every index of the model schema), judged on the rows of the
		// primary index - before the index comparison, which a duplicate unique value also upsets
	uniq:
		for _, ix := range t.Idx {
			if ix.Mode == 'i' {
				continue
			}
			seen := map[string]row{}
			for _, r := range tbl {
				if ix.Mode == 'u' && allEmpty(r, ix.Cols) {
					continue
				}
				f := ixVals(r, ix)
				if o, dup := seen[f]; dup {
					add("C07/duplicate-in-state", "", "table %s: rows %v and %v share %s", tn, o, r, ixText(t, ix))
					break uniq
				}
				seen[f] = r
			}
			if ix.Mode == 'k' && len(ix.Cols) == 0 && len(tbl) > 1 {
				add("C07/duplicate-in-state", "", "table %s has key() but %d rows", tn, len(tbl))
				break uniq
			}
		}
		// C06: every index has exactly the primary's rows, each under its own key
	cmp:
		for i, es := range byIdx {
			if len(es) != len(offs) {
				add("C06/index-disagrees", "", "table %s: index %d (%v) has %d entries, primary has %d rows", tn, i, ts.Indexes[i].Columns, len(es), len(offs))
				break cmp
			}
			for _, e := range es {
				r, ok := offs[e.off]
				if !ok {
					add("C06/index-disagrees", "", "table %s: index %d (%v) has an entry for offset %d which the primary index does not have", tn, i, ts.Indexes[i].Columns, e.off)
					break cmp
				}
				if want := ts.Indexes[i].Ixspec.Key(rt.GetRecord(e.off)); want != e.key {
					add("C06/index-disagrees", "", "table %s: index %d entry %q for row %v should be under key %q", tn, i, e.key, r, want)
					break cmp
				}
			}
		}
		// counts
		if info.Nrows != len(offs) || info.Size != bytes {
			add("C03/counts", "", "table %s: reported nrows=%d size=%d, actual rows=%d bytes=%d", tn, info.Nrows, info.Size, len(offs), bytes)
		}
	}
	// C08: no orphans
orphans:
	for _, tn := range h.sm.order {
		if c.primary[tn] == nil {
			continue
		}
		t := h.sm.tables[tn]
		for _, ix := range t.Idx {
			if ix.FkTable == "" {
				continue
			}
			for _, r := range c.primary[tn] {
				if allEmpty(r, ix.Cols) {
					continue
				}
				want := fieldsOf(r, ix.Cols)
				found := false
				for _, p := range c.primary[ix.FkTable] {
					if fieldsOf(p, ix.FkCols) == want {
						found = true
						break
					}
				}
				if !found {
					add("C08/orphan-in-state", "C08/orphan-in-state/"+modeName(ix.FkMode), "table %s row %v refers to a missing row of %s (foreign key %s %s)", tn, r, ix.FkTable, ixText(t, ix), modeName(ix.FkMode))
					break orphans
				}
			}
		}
	}
	if len(found) > 0 {
		pick := found[0]
		for _, fd := range found {
			if ps := oracleProps[fd.oracle]; ps == "*" || strings.Contains(ps, h.prop) {
				pick = fd
				break
			}
		}
		h.fail(pick.oracle, pick.sig, "%s", pick.msg)
		return nil
	}
	return c
}

// observe is called at every yield and between scheduler steps: if a new database state
// was published, read it and attribute it.
func (h *harness) observe() {
	if h.db == nil {
		return
	}
	st := h.db.GetState()
	if st == h.lastState || st == nil {
		return
	}
	h.lastState = st
	if h.s.Over() {
		return
	}
	c := h.readContents()
	if c == nil {
		return
	}
	if debugLayers {
		rt := h.db.NewReadTran()
		var sb strings.Builder
		for _, tn := range h.sm.order {
			fmt.Fprintf(&sb, " %s:", tn)
			for i := range rt.GetSchema(tn).Indexes {
				ov := rt.GetIndexI(tn, i)
				n := 0
				bi := ov.BtreeIter()
				for bi.Next(); !bi.Eof(); bi.Next() {
					n++
				}
				fmt.Fprintf(&sb, "%d(bt=%d) ", ov.Nlayers(), n)
			}
		}
		h.s.Tracef("v%d layers%s", len(h.versions), sb.String())
	}
	v := len(h.versions)
	prev := h.versions[v-1].model
	h.verOf[st] = v
	if c.primary.equal(prev) {
		h.versions = append(h.versions, version{state: st, model: prev, by: -1})
		h.ri.Count("versions.no-logical-change", 1)
		return
	}
	var match []*txn
	inflight := 0
	for _, t := range h.txns {
		if t.status != tCompleting {
			continue
		}
		inflight++
		if overlay(prev, t.v.writes).equal(c.primary) {
			match = append(match, t)
		}
	}
	if len(match) == 1 {
		t := match[0]
		if t.appliedAt >= 0 {
			h.fail("C03/applied-twice", "", "transaction T%d applied at version %d and again at %d", t.id, t.appliedAt, v)
			return
		}
		// no lost update: every row T wrote must be unchanged since T's snapshot
		base := h.versions[t.startVer].model
		for tn, ws := range t.v.writes {
			for pk := range ws {
				b, bok := base[tn][pk]
				p, pok := prev[tn][pk]
				if bok != pok || (bok && !b.eq(p)) {
					h.fail("C01/lost-update", "", "T%d (snapshot v%d) committed at v%d over row %s/%q which changed in between: %v -> %v", t.id, t.startVer, v, tn, pk, b, p)
					return
				}
			}
		}
		t.appliedAt = v
		h.versions = append(h.versions, version{state: st, model: c.primary, by: t.id})
		h.ri.Count("versions.commit", 1)
		h.s.Note("v%d = T%d", v, t.id)
		return
	}
	if len(match) > 1 {
		// several committing transactions have the same net effect (e.g. both delete the same
		// row): the one whose Complete reports success claims this version
		var ids []int
		for _, t := range match {
			ids = append(ids, t.id)
		}
		h.versions = append(h.versions, version{state: st, model: c.primary, by: -2, cands: ids})
		h.ri.Count("versions.commit-ambiguous", 1)
		h.s.Note("v%d = one of %v", v, ids)
		return
	}
	if inflight == 0 {
		h.fail("C16/change-without-commit", "", "state %d differs logically from state %d but no commit is in flight: %s", v, v-1, prev.diff(c.primary))
		return
	}
	h.fail("C03/unattributed-change", "", "state %d is not state %d plus the writes of exactly one committing transaction (%d in flight, %d match): %s", v, v-1, inflight, len(match), prev.diff(c.primary))
}

// ---------------------------------------------------------------------------------------
// schema families

func dom(prefix string, n int, withEmpty bool) []string {
	var d []string
	if withEmpty {
		d = append(d, "")
	}
	for i := 0; i < n; i++ {
		d = append(d, val(fmt.Sprintf("%s%d", prefix, i)))
	}
	return d
}

func (h *harness) makeSchema(mode string) {
	g := h.g
	nk := g.Range(2, 8)
	fam := g.Pick(4, 2, 3, 1, 1, 1, 1)
	switch mode {
	case "C08":
		fam = g.Pick(0, 0, 3, 0, 1, 2, 2)
	case "C07":
		fam = g.Pick(3, 3, 0, 1, 0, 0, 0)
	case "C06":
		fam = g.Pick(3, 1, 3, 1, 1, 1, 1)
	case "C03":
		fam = g.Pick(4, 2, 3, 1, 2, 1, 1)
	}
	sm := &schemaModel{tables: map[string]*tblDef{}}
	add := func(t *tblDef) {
		sm.tables[t.Name] = t
		sm.order = append(sm.order, t.Name)
	}
	tA := func(name string) *tblDef {
		t := &tblDef{Name: name, Cols: []string{"k", "a", "b", "u", "tok"},
			Idx: []idxDef{{Mode: 'k', Cols: []int{0}}, {Mode: 'i', Cols: []int{1}}, {Mode: 'u', Cols: []int{3}}},
			Dom: [][]string{dom("k", nk, false), dom("a", 3, true), dom("b", 3, true), dom("u", g.Range(2, 5), true)}}
		if g.Coin(1, 4) {
			// unique on the lower case version of u, values that differ in case only
			t.Idx[2].Lower = true
			for _, v := range dom("U", 2, false) {
				t.Dom[3] = append(t.Dom[3], v)
			}
		}
		return t
	}
	switch fam {
	case 0:
		h.family = "A"
		add(tA("t"))
	case 1:
		h.family = "B"
		add(&tblDef{Name: "t", Cols: []string{"a", "k", "tok"},
			Idx: []idxDef{{Mode: 'k', Cols: []int{0, 1}}, {Mode: 'i', Cols: []int{1}}},
			Dom: [][]string{dom("a", 2, true), dom("k", (nk+1)/2, true)}})
		add(&tblDef{Name: "one", Cols: []string{"x", "tok"},
			Idx: []idxDef{{Mode: 'k', Cols: []int{}}},
			Dom: [][]string{dom("x", 3, true)}})
	case 2:
		fkMode := []int{fkBlock, fkCascade, fkCascadeUpdate}[g.Choose(3)]
		np := (nk + 1) / 2
		if np < 2 {
			np = 2
		}
		if g.Coin(1, 3) {
			// composite foreign key whose values contain zero bytes and empty fields
			zdom := func(prefix string, n int) []string {
				d := []string{""}
				for i := 0; i < n; i++ {
					d = append(d, val(fmt.Sprintf("%s\x00%d", prefix, i)))
				}
				d = append(d, val("\x00"), val(prefix+"\x00\x00"))
				return d
			}
			add(&tblDef{Name: "p", Cols: []string{"k1", "k2", "x", "tok"},
				Idx: []idxDef{{Mode: 'k', Cols: []int{0, 1}}, {Mode: 'i', Cols: []int{2}}},
				Dom: [][]string{zdom("a", 2), zdom("b", 2), dom("x", 2, true)}})
			add(&tblDef{Name: "c", Cols: []string{"ck", "p1", "p2", "tok"},
				Idx: []idxDef{{Mode: 'k', Cols: []int{0}}, {Mode: 'i', Cols: []int{1, 2}, FkTable: "p", FkCols: []int{0, 1}, FkMode: fkMode}},
				Dom: [][]string{dom("c", nk, false), zdom("a", 2), zdom("b", 2)}})
			h.family = "C2/" + modeName(fkMode)
		} else {
			add(&tblDef{Name: "p", Cols: []string{"k", "x", "tok"},
				Idx: []idxDef{{Mode: 'k', Cols: []int{0}}, {Mode: 'i', Cols: []int{1}}},
				Dom: [][]string{dom("k", np, false), dom("x", 2, true)}})
			add(&tblDef{Name: "c", Cols: []string{"ck", "pk", "tok"},
				Idx: []idxDef{{Mode: 'k', Cols: []int{0}}, {Mode: 'i', Cols: []int{1}, FkTable: "p", FkCols: []int{0}, FkMode: fkMode}},
				Dom: [][]string{dom("c", nk, false), dom("k", np, true)}})
			h.family = "C/" + modeName(fkMode)
		}
	case 4:
		// a table that refers to itself (a tree); ids of different lengths
		fkMode := []int{fkBlock, fkCascade, fkCascadeUpdate}[g.Choose(3)]
		ids := []string{val("n1"), val("n22"), val("n333"), val("n4444"), val("n55555")}[:g.Range(3, 5)]
		add(&tblDef{Name: "tree", Cols: []string{"id", "parent", "tok"},
			Idx: []idxDef{{Mode: 'k', Cols: []int{0}}, {Mode: 'i', Cols: []int{1}, FkTable: "tree", FkCols: []int{0}, FkMode: fkMode}},
			Dom: [][]string{ids, append([]string{""}, ids...)}})
		h.family = "E/" + modeName(fkMode)
	case 5:
		// three levels: header <- middle <- low. The middle's key contains its foreign key
		// column, so a cascading change of a header key changes keys that the low table refers to
		modes := []int{fkBlock, fkCascade, fkCascadeUpdate}
		m1, m2 := modes[1+g.Choose(2)], modes[g.Choose(3)]
		if g.Coin(1, 6) {
			m1 = fkBlock
		}
		np := 2 + g.Choose(2)
		add(&tblDef{Name: "hd", Cols: []string{"a", "x", "tok"},
			Idx: []idxDef{{Mode: 'k', Cols: []int{0}}, {Mode: 'i', Cols: []int{1}}},
			Dom: [][]string{dom("a", np, false), dom("x", 2, true)}})
		add(&tblDef{Name: "md", Cols: []string{"a", "b", "tok"},
			Idx: []idxDef{{Mode: 'k', Cols: []int{0, 1}}, {Mode: 'i', Cols: []int{0}, FkTable: "hd", FkCols: []int{0}, FkMode: m1}},
			Dom: [][]string{dom("a", np, true), dom("b", 3, false)}})
		add(&tblDef{Name: "lo", Cols: []string{"lk", "a", "b", "tok"},
			Idx: []idxDef{{Mode: 'k', Cols: []int{0}}, {Mode: 'i', Cols: []int{1, 2}, FkTable: "md", FkCols: []int{0, 1}, FkMode: m2}},
			Dom: [][]string{dom("l", nk, false), dom("a", np, true), dom("b", 3, true)}})
		h.family = "G/" + modeName(m1) + "/" + modeName(m2)
	case 6:
		// one key that two tables refer to, with different rules (the back links of the key
		// are kept in creation order: the first one's rule must not decide for the second)
		modes := []int{fkBlock, fkCascade, fkCascadeUpdate}
		m1, m2 := modes[g.Choose(3)], modes[g.Choose(3)]
		np := 2 + g.Choose(2)
		add(&tblDef{Name: "pp", Cols: []string{"k", "x", "tok"},
			Idx: []idxDef{{Mode: 'k', Cols: []int{0}}, {Mode: 'i', Cols: []int{1}}},
			Dom: [][]string{dom("k", np, false), dom("x", 2, true)}})
		add(&tblDef{Name: "c1", Cols: []string{"ck", "pk", "tok"},
			Idx: []idxDef{{Mode: 'k', Cols: []int{0}}, {Mode: 'i', Cols: []int{1}, FkTable: "pp", FkCols: []int{0}, FkMode: m1}},
			Dom: [][]string{dom("c", nk, false), dom("k", np, true)}})
		add(&tblDef{Name: "c2", Cols: []string{"dk", "pk", "tok"},
			Idx: []idxDef{{Mode: 'k', Cols: []int{0}}, {Mode: 'i', Cols: []int{1}, FkTable: "pp", FkCols: []int{0}, FkMode: m2}},
			Dom: [][]string{dom("d", nk, false), dom("k", np, true)}})
		h.family = "H/" + modeName(m1) + "+" + modeName(m2)
	default:
		h.family = "D"
		add(tA("t"))
		add(&tblDef{Name: "t2", Cols: []string{"k", "a", "tok"},
			Idx: []idxDef{{Mode: 'k', Cols: []int{0}}, {Mode: 'i', Cols: []int{1}}},
			Dom: [][]string{dom("k", nk, false), dom("a", 2, true)}})
	}
	h.sm = sm
}

func (h *harness) adminText(t *tblDef) string {
	var sb strings.Builder
	fmt.Fprintf(&sb, "create %s (%s)", t.Name, t.colList())
	for _, ix := range t.Idx {
		sb.WriteString(" " + ixText(t, ix))
		if ix.FkTable != "" {
			ft := h.sm.tables[ix.FkTable]
			var cs []string
			for _, c := range ix.FkCols {
				cs = append(cs, ft.Cols[c])
			}
			sb.WriteString(" in " + ix.FkTable + "(" + strings.Join(cs, ",") + ")")
			switch ix.FkMode {
			case fkCascade:
				sb.WriteString(" cascade")
			case fkCascadeUpdate:
				sb.WriteString(" cascade update")
			}
		}
	}
	return sb.String()
}

func (h *harness) randRow(t *tblDef) row {
	r := make(row, len(t.Cols))
	for i := range t.Dom {
		r[i] = t.Dom[i][h.g.Choose(len(t.Dom[i]))]
	}
	h.tokN++
	r[len(r)-1] = val(fmt.Sprintf("#%d", h.tokN))
	return r
}

// ---------------------------------------------------------------------------------------
// client programs

type opKind int

const (
	opLookup opKind = iota
	opScan
	opOutput
	opUpdate
	opDelete
	opThink
)

type op struct {
	kind   opKind
	table  string
	idx    int
	probe  row // lookup key / scan origin
	probe2 row
	rev    bool
	max    int
	row    row // output / update template
	think  time.Duration
	whole  bool
}

type tranPlan struct {
	tag    string // motif this transaction belongs to (statistics)
	ops    []op
	abort  bool
	think0 time.Duration
}

func (h *harness) genTran(mode string) tranPlan {
	g := h.g
	var tp tranPlan
	nops := g.Range(1, 8)
	// weights: lookup scan output update delete think
	w := []int{3, 3, 4, 3, 2, 1}
	switch mode {
	case "C01":
		w = []int{4, 6, 3, 3, 2, 1}
	case "C07":
		w = []int{2, 1, 7, 4, 1, 1}
	case "C08":
		w = []int{2, 2, 5, 3, 4, 1}
	case "C16":
		w = []int{1, 1, 6, 2, 2, 0}
		nops = g.Range(1, 3)
	case "C03":
		w = []int{2, 2, 4, 3, 2, 3}
	case "C06":
		w = []int{2, 2, 4, 5, 4, 1}
	}
	for i := 0; i < nops; i++ {
		tn := h.sm.order[g.Choose(len(h.sm.order))]
		t := h.sm.tables[tn]
		o := op{kind: opKind(g.Pick(w...)), table: tn}
		switch o.kind {
		case opLookup:
			o.idx = t.pkIdx()
			o.probe = h.randRow(t)
		case opScan:
			o.idx = g.Choose(len(t.Idx))
			o.whole = g.Coin(1, 3)
			o.probe = h.randRow(t)
			o.probe2 = h.randRow(t)
			o.rev = g.Coin(1, 3)
			o.max = g.Range(1, 6)
			if g.Coin(1, 3) {
				o.max = 1000
			}
		case opOutput, opUpdate:
			o.row = h.randRow(t)
		case opThink:
			o.think = time.Duration([]int{1, 20, 300, 1500, 4000, 9000}[g.Choose(6)]) * time.Millisecond
		}
		tp.ops = append(tp.ops, o)
	}
	// a batch: read the highest row, delete or update it, then append 10-30 rows with keys
	// above everything (large index buffer chunks, delete of a chunk's last key)
	bw := 8
	if mode == "C06" || mode == "C16" {
		bw = 3
	}
	if g.Coin(1, bw) {
		tn := h.sm.order[g.Choose(len(h.sm.order))]
		t := h.sm.tables[tn]
		pk := t.Idx[t.pkIdx()]
		if len(pk.Cols) == 1 {
			var ops []op
			ops = append(ops, op{kind: opScan, table: tn, idx: t.pkIdx(), whole: true, rev: true, max: 1, probe: h.randRow(t), probe2: h.randRow(t)})
			switch g.Choose(3) {
			case 0:
				ops = append(ops, op{kind: opDelete, table: tn})
			case 1:
				ops = append(ops, op{kind: opUpdate, table: tn, row: h.randRow(t)})
			}
			for n := g.Range(10, 30); n > 0; n-- {
				r := h.randRow(t)
				h.batchN++
				r[pk.Cols[0]] = val(fmt.Sprintf("z%05d", h.batchN))
				ops = append(ops, op{kind: opOutput, table: tn, row: r})
			}
			tp.ops = append(ops, tp.ops...)
		}
	}
	abortW := 1
	if mode == "C03" {
		abortW = 3
	}
	tp.abort = g.Pick(10, abortW) == 1
	if g.Coin(1, 4) {
		tp.think0 = time.Duration(g.Choose(2000)) * time.Millisecond
	}
	return tp
}

type lastRead struct {
	table string
	off   uint64
	r     row
	own   bool // the offset of a record this transaction wrote itself
}

func classify(e any) string {
	msg := fmt.Sprint(e)
	switch {
	case strings.Contains(msg, "duplicate key"):
		return resDup
	case strings.Contains(msg, "blocked by foreign key"):
		return resFk
	case strings.Contains(msg, "transaction aborted"), strings.Contains(msg, "transaction already ended"),
		strings.Contains(msg, "too many"), strings.Contains(msg, "exceeded max age"):
		return resDead
	}
	return "panic: " + msg
}

func contains(ss []string, s string) bool {
	for _, x := range ss {
		if x == s {
			return true
		}
	}
	return false
}

// try runs f and returns the class of the panic it raised ("" for none).
func try(f func()) (res string) {
	defer func() {
		if e := recover(); e != nil {
			if _, ok := e.(simrt.Fatal); ok {
				panic(e)
			}
			res = classify(e)
		}
	}()
	f()
	return resOK
}

func (h *harness) runTran(client int, tp tranPlan) {
	s := h.s
	if tp.think0 > 0 {
		simrt.Sleep(tp.think0)
	}
	ut := h.db.NewUpdateTran()
	if ut == nil {
		h.ri.Count("starttran-nil", 1)
		return
	}
	t := &txn{id: h.nextTxn, client: client, ut: ut, appliedAt: -1}
	h.nextTxn++
	sv, ok := h.verOf[ut.VerifStartState()]
	if !ok {
		s.Machine("transaction snapshot state was never observed")
		return
	}
	t.startVer = sv
	t.v = &view{sm: h.sm, m: h.versions[sv].model.clone(), writes: writeSet{}}
	h.txns = append(h.txns, t)
	var last *lastRead
	defer func() {
		if last != nil && !last.own && client >= 0 {
			h.carry[client] = last
		}
	}()
	if c := h.carry[client]; c != nil && h.dynCoin(1, 3) {
		// an offset kept from the previous transaction (a cursor that outlives it): if the
		// row has been replaced or deleted since, a write through it must be refused even
		// as the first thing this transaction does
		delete(h.carry, client)
		cur, ok := t.v.m[c.table][h.sm.pk(c.table, c.r)]
		if !ok || cur.tok() != c.r.tok() {
			res := try(func() {
				if h.dynCoin(1, 2) {
					ut.Delete(nil, c.table, c.off)
				} else {
					r2 := append(row(nil), c.r...)
					r2[len(r2)-1] = val("stale")
					ut.Update(nil, c.table, c.off, r2.rec())
				}
			})
			t.ops = append(t.ops, fmt.Sprintf("write on %s through an offset of an earlier transaction -> %s", c.table, res))
			h.ri.Count("probe.stale-offset-earlier-tran:"+firstWords(res), 1)
			if res == resOK {
				h.fail("C06/stale-offset-accepted", "", "T%d: a delete / update through the offset that a row of %s had in an earlier transaction was accepted although the row has been replaced or deleted since", t.id, c.table)
				return
			}
			if res == resDead {
				t.dead = true
			}
			t.stop = true
		}
	}
	for _, o := range tp.ops {
		if s.Over() {
			return
		}
		if t.dead || t.stop {
			break
		}
		if tp.tag == "collide-output" && os.Getenv("VERIF_DEBUG_STALL") != "" {
			d := h.s.Tape.Stream("dyn")
			h.s.StallAfter(int64(1+d.Choose(14)), 5000)
		} else {
			h.maybeStall()
		}
		h.doOp(t, o, &last)
	}
	if s.Over() {
		return
	}
	if tp.abort {
		t.ops = append(t.ops, "abort")
		res := ut.Abort()
		t.status = tAborted
		t.result = "abort:" + res
		h.ri.Count("txn.aborted-explicitly", 1)
		if h.dynCoin(1, 2) {
			// the end of a transaction block completes the transaction even if the code in
			// the block has rolled it back: that must fail, and publish nothing
			h.maybeStall()
			cres := ut.Complete()
			t.ops = append(t.ops, "complete after abort -> "+cres)
			h.ri.Count("txn.complete-after-abort", 1)
			if cres == "" {
				h.fail("C03/applied-but-failed", "C03/complete-after-abort-succeeded", "T%d was rolled back explicitly, yet the Complete that followed reported success", t.id)
			}
		}
		return
	}
	t.ops = append(t.ops, "complete")
	t.status = tCompleting
	h.maybeStall()
	res := ut.Complete()
	t.result = res
	if tp.tag != "" {
		h.ri.Count("motif."+tp.tag+":"+firstWords(orOK(res)), 1)
	}
	if res == "" {
		t.status = tCommitted
		_, t.endSeq = ut.VerifSeq()
		h.ri.Count("txn.committed", 1)
		h.claim(t)
		if t.appliedAt < 0 && !netEmpty(h.versions[t.startVer].model, t.v.writes) {
			// its writes must be visible by now
			h.s.Inspect(h.observe)
			if t.appliedAt < 0 && !s.Over() {
				h.fail("C03/committed-not-applied", "", "T%d: Complete reported success but its changes were never published", t.id)
			}
		}
		if t.dead {
			// an operation of the transaction was reported as failed with "aborted", yet it committed
			h.fail("C03/applied-but-failed", "", "T%d reported 'transaction aborted' for an operation but then committed", t.id)
		}
	} else {
		t.status = tFailed
		h.ri.Count("txn.failed:"+firstWords(res), 1)
		if t.appliedAt >= 0 {
			h.fail("C03/applied-but-failed", "", "T%d: Complete reported %q but its changes were published at version %d", t.id, res, t.appliedAt)
		}
	}
}

// maybeStall arms a stall fault for the calling client: somewhere inside its next operation
// (between two of its messages to the checker, say) it is held up while the others go on.
func (h *harness) maybeStall() {
	if h.stalls && h.dynCoin(1, 3) {
		d := h.s.Tape.Stream("dyn")
		h.s.StallAfter(int64(1+d.Choose(30)), int64([]int{40, 200, 1000, 5000}[d.Choose(4)]))
	}
}

// claim resolves an ambiguous attribution in favour of a transaction that committed.
func (h *harness) claim(t *txn) {
	if t.appliedAt >= 0 {
		return
	}
	for i := range h.versions {
		v := &h.versions[i]
		if v.by != -2 {
			continue
		}
		for _, id := range v.cands {
			if id == t.id {
				v.by = t.id
				t.appliedAt = i
				return
			}
		}
	}
}

func firstWords(s string) string {
	f := strings.Fields(s)
	if len(f) > 4 {
		f = f[:4]
	}
	for i, w := range f {
		if strings.ContainsAny(w, "0123456789") {
			f = f[:i]
			break
		}
	}
	return strings.Join(f, " ")
}

func (h *harness) doOp(t *txn, o op, last **lastRead) {
	tbl := h.sm.tables[o.table]
	ut := t.ut
	switch o.kind {
	case opThink:
		t.ops = append(t.ops, fmt.Sprintf("think %v", o.think))
		simrt.Sleep(o.think)
	case opLookup:
		key := h.key(o.table, o.idx, o.probe)
		var rec *core.DbRec
		res := try(func() { rec = ut.Lookup(o.table, o.idx, key) })
		if res != resOK {
			h.opFailed(t, "lookup", res)
			return
		}
		got := ""
		if rec != nil {
			r := rowFromRec(rec.Record, len(tbl.Cols))
			got = r.tok()
			*last = &lastRead{table: o.table, off: rec.Off, r: r}
		}
		want := evalLookup(t.v.m, h.key, o.table, o.idx, key)
		t.ops = append(t.ops, fmt.Sprintf("lookup %s %v = %s", o.table, o.probe[:len(o.probe)-1], tokStr(got)))
		t.reads = append(t.reads, readRec{kind: "lookup", table: o.table, idx: o.idx, org: key, tokens: []string{got}, own: t.v.writes.clone()})
		if got != want {
			h.fail("C02/update-tran-read", "", "T%d (snapshot v%d): lookup %s %q returned %s, its snapshot plus own writes has %s", t.id, t.startVer, o.table, key, tokStr(got), tokStr(want))
		}
	case opScan:
		org, end := ixkey.Min, ixkey.Max
		if !o.whole {
			org = h.key(o.table, o.idx, o.probe)
			end = h.key(o.table, o.idx, o.probe2)
			if org > end {
				org, end = end, org
			}
		}
		var toks []string
		var rows []lastRead
		eof := false
		res := try(func() {
			it := ut.IndexIter(o.table, o.idx)
			it.Range(index.Range{Org: org, End: end})
			for n := 0; n < o.max; n++ {
				if o.rev {
					it.Prev(ut)
				} else {
					it.Next(ut)
				}
				if it.Eof() {
					eof = true
					break
				}
				_, off := it.Cur()
				r := rowFromRec(ut.GetRecord(off), len(tbl.Cols))
				toks = append(toks, r.tok())
				rows = append(rows, lastRead{table: o.table, off: off, r: r})
			}
		})
		if res != resOK {
			h.opFailed(t, "scan", res)
			return
		}
		if len(rows) > 0 {
			lr := rows[h.pickDyn(len(rows))]
			*last = &lr
		}
		want, weof := evalScan(t.v.m, h.key, o.table, o.idx, org, end, o.rev, o.max)
		t.ops = append(t.ops, fmt.Sprintf("scan %s ix%d rev=%v max=%d = %s eof=%v", o.table, o.idx, o.rev, o.max, toksStr(toks), eof))
		t.reads = append(t.reads, readRec{kind: "scan", table: o.table, idx: o.idx, org: org, end: end, rev: o.rev, max: o.max, tokens: toks, eof: eof, own: t.v.writes.clone()})
		if !sameStrs(toks, want) || (eof != weof && len(toks) < o.max) {
			h.fail("C02/update-tran-read", "", "T%d (snapshot v%d): scan of %s index %d [%q,%q) rev=%v max=%d returned %s eof=%v, its snapshot plus own writes gives %s eof=%v", t.id, t.startVer, o.table, o.idx, org, end, o.rev, o.max, toksStr(toks), eof, toksStr(want), weof)
		}
	case opOutput:
		want := t.v.output(o.table, o.row)
		res := try(func() { ut.Output(nil, o.table, o.row.rec()) })
		t.ops = append(t.ops, fmt.Sprintf("output %s %v -> %s", o.table, o.row, res))
		h.compare(t, "output", o.table, "", want, res, false)
	case opUpdate:
		if *last == nil || (*last).table != o.table {
			return
		}
		old := (*last).r
		// the new row keeps the key most of the time
		nw := append(row(nil), o.row...)
		if !h.dynCoin(1, 4) {
			for _, c := range tbl.Idx[tbl.pkIdx()].Cols {
				nw[c] = old[c]
			}
		}
		if h.wouldCycle(t.v, o.table, old, nw) {
			return // a cycle makes a cascading delete recurse until the write limit; not generated
		}
		want, note, dead := t.v.update(o.table, old, nw)
		var newoff uint64
		res := try(func() { newoff = ut.Update(nil, o.table, (*last).off, nw.rec()) })
		t.ops = append(t.ops, fmt.Sprintf("update %s %v => %v -> %s", o.table, old, nw, res))
		h.compare(t, "update", o.table, note, want, res, dead)
		if res == resOK {
			staleOff := (*last).off
			*last = &lastRead{o.table, newoff, nw, true}
			if newoff != staleOff && h.dynCoin(1, 5) && !h.s.Over() {
				// probe: the offset the row had before the update is stale now; using it
				// must be refused, not silently recorded against the wrong index entries
				res := try(func() {
					if h.dynCoin(1, 2) {
						ut.Delete(nil, o.table, staleOff)
					} else {
						// (an update to an identical record is a no-op, so change a field)
						r2 := append(row(nil), old...)
						r2[len(r2)-1] = val("stale")
						ut.Update(nil, o.table, staleOff, r2.rec())
					}
				})
				t.ops = append(t.ops, fmt.Sprintf("stale-offset write on %s -> %s", o.table, res))
				h.ri.Count("probe.stale-offset:"+firstWords(res), 1)
				if res == resOK {
					h.fail("C06/stale-offset-accepted", "", "T%d: after updating a row of %s, a delete / update through the row's old offset was accepted", t.id, o.table)
					t.stop = true
				} else if res == resDead || strings.HasPrefix(res, "panic: ") {
					// refused; a transaction that was aborted by the refusal is dead
					if res == resDead {
						t.dead = true
					}
					t.stop = true
				}
			}
		}
	case opDelete:
		if *last == nil || (*last).table != o.table {
			return
		}
		old := (*last).r
		want, note, dead := t.v.delete(o.table, old)
		res := try(func() { ut.Delete(nil, o.table, (*last).off) })
		t.ops = append(t.ops, fmt.Sprintf("delete %s %v -> %s", o.table, old, res))
		h.compare(t, "delete", o.table, note, want, res, dead)
		*last = nil
	}
}

// wouldCycle reports whether updating old to nw in a self-referencing table would make a
// row its own ancestor.
func (h *harness) wouldCycle(v *view, table string, old, nw row) bool {
	t := h.sm.tables[table]
	for _, ix := range t.Idx {
		if ix.FkTable != table || len(ix.Cols) != 1 {
			continue
		}
		kc := ix.FkCols[0]
		pc := ix.Cols[0]
		// walk up from the new parent; reaching the row itself (old or new id) is a cycle
		cur := nw[pc]
		for steps := 0; cur != "" && steps < 100; steps++ {
			if cur == nw[kc] || cur == old[kc] {
				return true
			}
			next := ""
			found := false
			for _, r := range v.m[table] {
				if r[kc] == cur {
					next, found = r[pc], true
					break
				}
			}
			if !found {
				break
			}
			cur = next
		}
	}
	return false
}

// dynamic choices made during the run (they depend on what was read) come from their own stream
func (h *harness) pickDyn(n int) int { return h.s.Tape.Stream("dyn").Choose(n) }
func (h *harness) dynCoin(a, b int) bool {
	return h.s.Tape.Stream("dyn").Coin(a, b)
}

func tokStr(t string) string {
	if t == "" {
		return "none"
	}
	return strings.TrimPrefix(t, string(rune(core.PackString)))
}

func toksStr(ts []string) string {
	var out []string
	for _, t := range ts {
		out = append(out, tokStr(t))
	}
	return "[" + strings.Join(out, " ") + "]"
}

func sameStrs(a, b []string) bool {
	if len(a) != len(b) {
		return false
	}
	for i := range a {
		if a[i] != b[i] {
			return false
		}
	}
	return true
}

func (h *harness) opFailed(t *txn, what, res string) {
	t.ops = append(t.ops, what+" -> "+res)
	if res == resDead {
		t.dead = true
		return
	}
	h.fail("C03/op-panic", "", "T%d: %s raised %s", t.id, what, res)
}

// compare checks the implementation's outcome of a write against the model's.
func (h *harness) compare(t *txn, what, table, note string, want []string, got string, dead bool) {
	if got == resDead {
		// the transaction was aborted (conflict, timeout, pre-emption): always allowed
		t.dead = true
		return
	}
	if strings.HasPrefix(got, "panic: ") {
		h.fail("C03/op-panic", "", "T%d: %s on %s raised %s", t.id, what, table, got)
		return
	}
	if contains(want, got) {
		if got != resOK && dead {
			t.stop = true // a failure inside a cascade: the implementation aborts the transaction
		}
		return
	}
	// mismatch
	sigNote := note
	if sigNote == "" {
		sigNote = what
	}
	switch {
	case got == resOK && contains(want, resDup):
		h.fail("C07/dup-not-detected", "C07/dup-not-detected/"+what, "T%d: %s on %s succeeded but its snapshot plus own writes already holds a row with the same key or unique value", t.id, what, table)
	case got == resOK && contains(want, resFk):
		h.fail("C08/fk-not-enforced", "C08/fk-not-enforced/"+sigNote, "T%d: %s on %s succeeded but the foreign key rules require it to be refused (%s)", t.id, what, table, sigNote)
	case got == resDup:
		h.fail("C07/spurious-dup", "", "T%d: %s on %s raised duplicate key but its snapshot plus own writes has no such row", t.id, what, table)
	case got == resFk:
		h.fail("C08/spurious-fk-block", "C08/spurious-fk-block/"+sigNote, "T%d: %s on %s was blocked by a foreign key but the rules allow it", t.id, what, table)
	}
	t.stop = true
}

// ---------------------------------------------------------------------------------------
// the run

func Run(s *simrt.Sim, mode string, ri *hkit.RunInfo) {
	h := &harness{carry: map[int]*lastRead{}, s: s, ri: ri, prop: mode, g: s.Tape.Stream("gen"), verOf: map[*db19.DbState]int{}, sch: map[string]*schema.Schema{}}
	g := h.g
	s.Context = func() string { return h.history() }
	// swarm knobs
	db19.VerifReset()
	db19.MaxAge = g.Range(3, 20)
	h.stalls = g.Coin(1, 2) // swarm: half of the runs stall clients inside their operations
	persist := time.Duration([]int{500, 1000, 2000, 5000, 20000, 60000}[g.Choose(6)]) * time.Millisecond
	if mode == "C16" {
		persist = time.Duration([]int{300, 500, 1000, 2000}[g.Choose(4)]) * time.Millisecond
	}
	split := []int{4, 6, 10, 30, 100}[g.Choose(5)]
	prevSplit := btree.SetSplit(split)
	defer btree.SetSplit(prevSplit)
	chunk := 16384 << g.Choose(4)
	simmaphash.Bits.Store(int32([]int{0, 0, 16, 6, 4, 3}[g.Choose(6)]))
	defer simmaphash.Bits.Store(0)
	simmaphash.Salt.Store(g.Uint64())
	defer simmaphash.Salt.Store(0)
	simmaphash.Slots.Store(int32([]int{0, 0, 1, 2, 3}[g.Choose(5)]))
	defer simmaphash.Slots.Store(0)
	options.Nworkers = g.Range(1, 8) // otherwise derived from GOMAXPROCS: a hidden input
	db19.MakeSuTran = func(ut *db19.UpdateTran) *core.SuTran { return core.NewSuTran(nil, true) }
	core.Exit = func(code int) { panic(simrt.Fatal{Msg: fmt.Sprintf("core.Exit(%d)", code)}) }

	thorough := os.Getenv("VERIF_TIER") == "thorough"
	h.makeSchema(mode)
	s.Tracef("knobs: maxage=%d persist=%v split=%d chunk=%d hashbits=%d", db19.MaxAge, persist, split, chunk, simmaphash.Bits.Load())
	nclients := g.Range(1, 6)
	if thorough {
		nclients = g.Range(1, 8)
	}
	nread := g.Choose(3)
	if mode == "C02" {
		nread = g.Range(1, 3)
	}
	admin := g.Coin(1, 3)
	if mode == "C06" || mode == "C16" || mode == "C02" {
		admin = g.Coin(2, 3)
	}
	var plans [][]tranPlan
	for c := 0; c < nclients; c++ {
		nt := g.Range(1, 5)
		if thorough {
			nt = g.Range(1, 8)
		}
		var tps []tranPlan
		for i := 0; i < nt; i++ {
			tps = append(tps, h.genTran(mode))
		}
		// thorough tier: occasionally one transaction that runs into the write limit
		if thorough && mode == "C03" && c == 0 && g.Coin(1, 100) {
			var tp tranPlan
			t0 := h.sm.tables[h.sm.order[0]]
			for i := 0; i < 10050; i++ {
				tp.ops = append(tp.ops, op{kind: opOutput, table: t0.Name, row: h.randRow(t0)})
			}
			tps = append(tps, tp)
			h.ri.Count("probe.write-limit-transaction", 1)
		}
		plans = append(plans, tps)
	}
	// collision motif: two clients start with transactions that give the same, so far
	// unused, value of a unique index to two different rows at the same time - one by updating
	// an existing row (keeping its key), the other by inserting a new row
	collide := false
	if tu, ok := h.sm.tables["t"]; ok && len(tu.Cols) == 5 && (mode == "C07" || mode == "ALL" || g.Coin(1, 8)) && g.Coin(1, 2) {
		collide = true
		x := val(fmt.Sprintf("ux%d", g.Choose(2)))
		up := h.randRow(tu)
		up[3] = x
		out := h.randRow(tu)
		out[3] = x
		out[0] = val("kx")
		updTran := tranPlan{tag: "collide-update", ops: []op{
			{kind: opScan, table: "t", idx: tu.pkIdx(), whole: true, rev: g.Coin(1, 2), max: g.Range(1, 3), probe: h.randRow(tu), probe2: h.randRow(tu)},
			{kind: opUpdate, table: "t", row: up}}}
		outTran := tranPlan{tag: "collide-output", ops: []op{{kind: opOutput, table: "t", row: out}}}
		for len(plans) < 2 {
			plans = append(plans, nil)
		}
		a, b := 0, 1
		if g.Coin(1, 2) {
			a, b = 1, 0
		}
		plans[a] = append([]tranPlan{updTran}, plans[a]...)
		plans[b] = append([]tranPlan{outTran}, plans[b]...)
		h.ri.Count("motif.unique-collision", 1)
	}
	// initial rows
	var initial []struct {
		table string
		r     row
	}
	if collide {
		initial = append(initial, struct {
			table string
			r     row
		}{"t", h.randRow(h.sm.tables["t"])})
	}
	if strings.HasPrefix(h.family, "G/") {
		// a populated three level hierarchy: most headers have several middle rows, some of
		// which are referred to by low rows
		hd, md, lo := h.sm.tables["hd"], h.sm.tables["md"], h.sm.tables["lo"]
		n := 0
		for _, a := range hd.Dom[0] {
			if g.Coin(1, 4) {
				continue
			}
			r := h.randRow(hd)
			r[0] = a
			initial = append(initial, struct {
				table string
				r     row
			}{"hd", r})
			for _, b := range md.Dom[1] {
				if g.Coin(1, 3) {
					continue
				}
				mr := h.randRow(md)
				mr[0], mr[1] = a, b
				initial = append(initial, struct {
					table string
					r     row
				}{"md", mr})
				if g.Coin(1, 3) {
					lr := h.randRow(lo)
					n++
					lr[0], lr[1], lr[2] = val(fmt.Sprintf("li%d", n)), a, b
					initial = append(initial, struct {
						table string
						r     row
					}{"lo", lr})
				}
			}
		}
	}
	for _, tn := range h.sm.order {
		t := h.sm.tables[tn]
		for i := g.Choose(6); i > 0; i-- {
			initial = append(initial, struct {
				table string
				r     row
			}{tn, h.randRow(t)})
		}
	}

	store := stor.HeapStor(chunk)
	h.db = db19.CreateDb(store)
	db := h.db
	db19.StartConcur(db, persist)
	if admin && g.Coin(1, 2) {
		// scratch tables that are older than the tables of the workload (they sit above them
		// in the schema and info tries). The first one is usually persisted before the others
		// are created, so that those are new entries of a trie that has been saved before.
		mk := func() {
			name := fmt.Sprintf("x%d", g.Choose(8))
			if res := try(func() { query.DoAdmin(db, fmt.Sprintf("create %s (a,b) key(a)", name), nil) }); res == resOK {
				h.scratch = append(h.scratch, name)
			}
		}
		mk()
		if !g.Coin(1, 4) {
			db.Persist()
		}
		for i := g.Range(1, 3); i > 0; i-- {
			mk()
		}
		if g.Coin(1, 4) {
			db.Persist()
		}
		// (the ones created last are dropped first)
		for i, j := 0, len(h.scratch)-1; i < j; i, j = i+1, j-1 {
			h.scratch[i], h.scratch[j] = h.scratch[j], h.scratch[i]
		}
	}
	for _, tn := range h.sm.order {
		query.DoAdmin(db, h.adminText(h.sm.tables[tn]), nil)
	}
	rt := db.NewReadTran()
	for _, tn := range h.sm.order {
		h.sch[tn] = rt.GetSchema(tn)
	}
	// version 0: the empty database with its schema
	h.lastState = db.GetState()
	h.verOf[h.lastState] = 0
	m0 := dbModel{}
	for _, tn := range h.sm.order {
		m0[tn] = tableState{}
	}
	h.versions = append(h.versions, version{state: h.lastState, model: m0, by: -1})
	s.OnYield(h.observe)
	s.OnStep(h.observe)

	// the initial rows go in through an ordinary transaction (attributed like any other)
	if len(initial) > 0 {
		var tp tranPlan
		for _, in := range initial {
			tp.ops = append(tp.ops, op{kind: opOutput, table: in.table, row: in.r})
		}
		h.runTran(-1, tp)
	}

	var wg simsync.WaitGroup
	for c := range plans {
		c := c
		wg.Add(1)
		s.GoNamed(fmt.Sprintf("client%d", c), func() {
			defer wg.Done()
			for _, tp := range plans[c] {
				if s.Over() {
					return
				}
				h.runTran(c, tp)
			}
		})
	}
	for r := 0; r < nread; r++ {
		r := r
		wg.Add(1)
		s.GoNamed(fmt.Sprintf("reader%d", r), func() {
			defer wg.Done()
			h.reader(r)
		})
	}
	if admin {
		wg.Add(1)
		s.GoNamed("admin", func() {
			defer wg.Done()
			h.adminClient()
		})
	}
	wg.Wait()
	if s.Over() {
		return
	}
	h.finish()
}

func (h *harness) reader(id int) {
	s := h.s
	g := s.Tape.Stream(fmt.Sprintf("reader%d", id))
	for round := g.Range(1, 3); round > 0 && !s.Over(); round-- {
		simrt.Sleep(time.Duration(g.Choose(3000)) * time.Millisecond)
		var rt *db19.ReadTran
		ver := 0
		s.Inspect(func() {
			h.observe()
			rt = h.db.NewReadTran()
			ver = len(h.versions) - 1
		})
		if s.Over() {
			return
		}
		m := h.versions[ver].model
		type rd struct {
			table    string
			idx      int
			org, end string
			rev      bool
			first    []string
		}
		var done []rd
		n := g.Range(2, 6)
		for i := 0; i < n && !s.Over(); i++ {
			var q rd
			if len(done) > 0 && g.Coin(1, 2) {
				q = done[g.Choose(len(done))] // repeat an earlier read
			} else {
				tn := h.sm.order[g.Choose(len(h.sm.order))]
				q = rd{table: tn, idx: g.Choose(len(h.sm.tables[tn].Idx)), org: ixkey.Min, end: ixkey.Max, rev: g.Coin(1, 3)}
			}
			tbl := h.sm.tables[q.table]
			var toks []string
			res := try(func() {
				it := rt.IndexIter(q.table, q.idx)
				it.Range(index.Range{Org: q.org, End: q.end})
				for k := 0; k < 1000; k++ {
					if q.rev {
						it.Prev(rt)
					} else {
						it.Next(rt)
					}
					if it.Eof() {
						break
					}
					_, off := it.Cur()
					toks = append(toks, rowFromRec(rt.GetRecord(off), len(tbl.Cols)).tok())
				}
			})
			if res != resOK {
				h.fail("C02/read-tran-read", "", "reader%d at version %d: scan raised %s", id, ver, res)
				return
			}
			want, _ := evalScan(m, h.key, q.table, q.idx, q.org, q.end, q.rev, 1000)
			h.ri.Count("reader.reads", 1)
			if len(h.versions)-1 > ver {
				h.ri.Count("reader.reads-after-later-commit", 1)
			}
			if !sameStrs(toks, want) {
				h.fail("C02/read-tran-read", "", "reader%d opened at version %d (now %d): scan of %s index %d rev=%v returned %s, the state at its start was %s", id, ver, len(h.versions)-1, q.table, q.idx, q.rev, toksStr(toks), toksStr(want))
				return
			}
			if q.first != nil && !sameStrs(q.first, toks) {
				h.fail("C02/read-tran-repeat", "", "reader%d: repeated scan returned %s, first time %s", id, toksStr(toks), toksStr(q.first))
				return
			}
			q.first = toks
			done = append(done, q)
			simrt.Sleep(time.Duration(g.Choose(4000)) * time.Millisecond)
		}
	}
}

func (h *harness) adminClient() {
	s := h.s
	g := s.Tape.Stream("admin")
	n := g.Range(1, 4)
	churn := g.Coin(1, 2) // scratch tables come and go beside the tables of the workload
	if churn {
		n = g.Range(2, 9)
	}
	scratch := map[string]bool{}
	var scratchOrder []string
	for _, n := range h.scratch {
		scratch[n] = true
		scratchOrder = append(scratchOrder, n)
	}
	if len(scratchOrder) > 0 {
		churn = true
	}
	added := map[string]bool{}
	for i := 0; i < n && !s.Over(); i++ {
		simrt.Sleep(time.Duration(g.Choose(3000)) * time.Millisecond)
		if s.Over() {
			return
		}
		w3 := 0
		if churn {
			w3 = 6
		}
		switch g.Pick(3, 3, 2, w3) {
		case 3:
			// the schema and info tables are persistent hash tries shared by every snapshot:
			// entries that come and go must never disturb an older snapshot
			var cmd, name string
			if len(scratchOrder) == 0 || (len(scratchOrder) < 5 && g.Coin(1, 2)) {
				for {
					name = fmt.Sprintf("x%d", g.Choose(8))
					if !scratch[name] {
						break
					}
				}
				cmd = fmt.Sprintf("create %s (a,b) key(a)", name)
			} else {
				k := 0 // mostly the oldest: it sits highest in the tries
				if g.Coin(1, 3) {
					k = g.Choose(len(scratchOrder))
				}
				name = scratchOrder[k]
				cmd = "drop " + name
			}
			res := try(func() { query.DoAdmin(h.db, cmd, nil) })
			if res == resOK {
				if scratch[name] {
					delete(scratch, name)
					for k, n := range scratchOrder {
						if n == name {
							scratchOrder = append(scratchOrder[:k], scratchOrder[k+1:]...)
							break
						}
					}
				} else {
					scratch[name] = true
					scratchOrder = append(scratchOrder, name)
				}
			}
			h.ri.Count("admin.scratch:"+firstWords(res), 1)
			s.Note("admin %s -> %s", cmd, res)
		case 0: // index creation on a (possibly populated) table while writers run
			tn := h.sm.order[g.Choose(len(h.sm.order))]
			t := h.sm.tables[tn]
			// a non-key column combination that is not indexed yet
			col := t.Cols[g.Choose(len(t.Cols)-1)]
			cmd := fmt.Sprintf("alter %s create index(%s,tok)", tn, col)
			if g.Coin(1, 2) {
				cmd = fmt.Sprintf("ensure %s index(%s,tok)", tn, col)
			}
			if added[tn+col] {
				continue
			}
			added[tn+col] = true
			res := try(func() { query.DoAdmin(h.db, cmd, nil) })
			h.ri.Count("admin.create-index:"+firstWords(res), 1)
			s.Note("admin %s -> %s", cmd, res)
		case 1:
			res := try(func() { h.db.Persist() })
			h.ri.Count("admin.persist:"+firstWords(res), 1)
		case 2:
			var err error
			res := try(func() { err = h.db.Check(true) })
			h.ri.Count("admin.check", 1)
			if res != resOK {
				h.fail("C06/check-failed", "", "db.Check raised %s", res)
			} else if err != nil {
				h.fail("C06/check-failed", "", "db.Check (full) while running: %v", err)
			}
		}
	}
}

func (h *harness) finish() {
	s := h.s
	s.Inspect(h.observe)
	if s.Over() {
		return
	}
	// outcome <=> applied
	final := h.versions[len(h.versions)-1].model
	var committed []*txn
	for _, t := range h.txns {
		switch t.status {
		case tCommitted:
			if t.appliedAt >= 0 {
				committed = append(committed, t)
			}
		case tAborted, tFailed, tActive:
			if t.appliedAt >= 0 {
				h.fail("C03/applied-but-failed", "", "T%d did not commit (status %d, %q) but its changes were published", t.id, t.status, t.result)
				return
			}
		}
	}
	_ = final
	for i, v := range h.versions {
		if v.by == -2 {
			h.fail("C03/unattributed-change", "", "state %d was published by one of the transactions %v but none of them reported success", i, v.cands)
			return
		}
	}
	// commit order = attribution order
	sort.Slice(committed, func(i, j int) bool { return committed[i].appliedAt < committed[j].appliedAt })
	for i := 1; i < len(committed); i++ {
		a, b := committed[i-1], committed[i]
		if a.endSeq >= b.endSeq && a.endSeq != math.MaxInt {
			h.fail("C03/commit-order", "", "T%d was published before T%d but has the later commit sequence number (%d >= %d)", a.id, b.id, a.endSeq, b.endSeq)
			return
		}
	}
	// C01: serial re-execution of every committed transaction's reads at its commit point
	overl := 0
	for _, t := range h.txns {
		if t.status != tCommitted {
			continue
		}
		at := t.startVer
		if t.appliedAt >= 0 {
			at = t.appliedAt - 1
			if at > t.startVer {
				overl++
			}
		}
		base := h.versions[at].model
		for _, rd := range t.reads {
			m := overlay(base, rd.own)
			if rd.kind == "lookup" {
				want := evalLookup(m, h.key, rd.table, rd.idx, rd.org)
				if want != rd.tokens[0] {
					h.fail("C01/serial-reexecution", "", "T%d (snapshot v%d, committed at v%d): lookup %s %q returned %s, but run serially at its commit point it returns %s", t.id, t.startVer, t.appliedAt, rd.table, rd.org, tokStr(rd.tokens[0]), tokStr(want))
					return
				}
			} else {
				want, weof := evalScan(m, h.key, rd.table, rd.idx, rd.org, rd.end, rd.rev, rd.max)
				if !sameStrs(want, rd.tokens) || (weof != rd.eof && len(want) < rd.max) {
					h.fail("C01/serial-reexecution", "", "T%d (snapshot v%d, committed at v%d): scan of %s index %d [%q,%q) rev=%v max=%d returned %s eof=%v, but run serially at its commit point it returns %s eof=%v", t.id, t.startVer, t.appliedAt, rd.table, rd.idx, rd.org, rd.end, rd.rev, rd.max, toksStr(rd.tokens), rd.eof, toksStr(want), weof)
					return
				}
			}
		}
	}
	h.ri.Count("txn.committed-after-other-commits", int64(overl))
	// full check, then clean close (the final persist is one more observed version)
	var err error
	res := try(func() { err = h.db.Check(true) })
	if res != resOK {
		h.fail("C06/check-failed", "", "final db.Check raised %s", res)
		return
	} else if err != nil {
		h.fail("C06/check-failed", "", "final db.Check (full): %v", err)
		return
	}
	// what a persist writes must be what has been committed: persist, then read the newest
	// persisted state back from the store and compare it with the final model
	var pst *db19.DbState
	res = try(func() { pst = h.db.Persist() })
	if res != resOK {
		h.fail("C03/op-panic", "", "Persist raised %s", res)
		return
	}
	if pst != nil && !s.Over() {
		ok := true
		s.Inspect(func() {
			h.observe()
			rt := h.db.NewReadTran()
			var t int64
			if r := try(func() { t = rt.Asof(-1) }); r != resOK || t == 0 {
				h.fail("C16/persisted-differs", "", "after Persist the newest persisted state cannot be read: %s (time %d)", r, t)
				ok = false
				return
			}
			if rt.VerifOff() != pst.Off {
				h.ri.Count("persisted-check.skipped-newer-record", 1) // a further persist is in progress
				return
			}
			var c *contents
			if r := try(func() { c = h.readContentsOf(rt) }); r != resOK {
				h.fail("C16/persisted-differs", "", "reading the persisted state raised %s", r)
				ok = false
				return
			}
			if c == nil {
				ok = false
				return
			}
			fin := h.versions[len(h.versions)-1].model
			if !c.primary.equal(fin) {
				h.fail("C16/persisted-differs", "", "the state written by the final Persist differs from the committed contents: %s", c.primary.diff(fin))
				ok = false
				return
			}
			h.ri.Count("persisted-check.ok", 1)
		})
		if !ok || s.Over() {
			return
		}
	}
	res = try(func() { h.db.Close() })
	if res != resOK {
		h.fail("C03/op-panic", "", "Close raised %s", res)
		return
	}
	s.Inspect(func() {
		// after Close the state holder may be nil; the last published state was observed by the hook
	})
	nver := len(h.versions)
	ncommit := 0
	for _, v := range h.versions {
		if v.by >= 0 {
			ncommit++
		}
	}
	_ = ncommit
	h.ri.Count("versions", int64(nver))
	h.ri.Count("family."+h.family, 1)
	h.ri.Nontrivial = ncommit >= 2 && (overl > 0 || nver > ncommit+3)
	var sample []string
	for _, t := range h.txns {
		sample = append(sample, fmt.Sprintf("T%d c%d v%d->v%d %q: %s", t.id, t.client, t.startVer, t.appliedAt, t.result, strings.Join(t.ops, " | ")))
	}
	if len(sample) > 12 {
		sample = sample[:12]
	}
	h.ri.Sample = map[string]any{"family": h.family, "policy": s.PolicyName(), "versions": nver, "commits": ncommit, "transactions": sample}
}

func orOK(s string) string {
	if s == "" {
		return "committed"
	}
	return s
}
