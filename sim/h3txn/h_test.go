package h3txn

import (
	"os"
	"testing"

	"github.com/apmckinlay/gsuneido/core"

	"verifsim/hkit"
	"verifsim/simrt"
)

func TestSim(t *testing.T) {
	hkit.Main(t, hkit.Harness{
		Name: "h3txn",
		Config: func(mode string) simrt.Config {
			c := simrt.DefaultConfig()
			c.MaxSteps, c.FairSteps = 300_000, 600_000
			c.MaxSimTime, c.FairSimTime = 10*60e9, 20*60e9
			if os.Getenv("VERIF_TRACE") != "" {
				c.TraceCap = 5000
			}
			return c
		},
		Main: Run,
		Warmup: func(string) {
			for _, n := range []string{"t", "t2", "one", "p", "c", "tree", "hd", "md", "lo", "pp", "c1", "c2",
				"x0", "x1", "x2", "x3", "x4", "x5", "x6", "x7"} {
				core.Global.FindName(nil, "Trigger_"+n)
			}
		},
		WarmupRuns: 6,
	})
}
