// Package h3txn is harness H3 (txnsim): the whole db19 transactional pipeline under the
// simulator, compared after every published database state with a small executable
// reference model. Properties C01, C02, C03, C06, C07, C08, C16.
package h3txn

import (
	"fmt"
	"sort"
	"strings"

	"github.com/apmckinlay/gsuneido/core"
)

// Foreign key modes (as documented: block, cascade update, cascade).
const (
	fkBlock         = 0
	fkCascadeUpdate = 1
	fkCascade       = 3
)

type idxDef struct {
	Mode    byte  // 'k' key, 'i' index, 'u' unique index
	Cols    []int // column numbers
	FkTable string
	FkCols  []int // column numbers in the target table (a key of it)
	FkMode  int
	Lower   bool // built on the lower case (_lower!) versions of its columns
}

type tblDef struct {
	Name string
	Cols []string
	Idx  []idxDef
	Dom  [][]string // candidate values per column (token column excluded)
}

// colList is the column list of the create request: the stored columns plus the derived
// lower case columns that indexes are built on.
func (t *tblDef) colList() string {
	cs := append([]string(nil), t.Cols...)
	for _, ix := range t.Idx {
		if ix.Lower {
			for _, c := range ix.Cols {
				cs = append(cs, t.Cols[c]+"_lower!")
			}
		}
	}
	return strings.Join(cs, ",")
}

// ixVals is fieldsOf for the values an index is built on (lower case for a _lower! index).
func ixVals(r row, ix idxDef) string {
	if !ix.Lower {
		return fieldsOf(r, ix.Cols)
	}
	var sb strings.Builder
	for i, c := range ix.Cols {
		if i > 0 {
			sb.WriteString("\x00\x01")
		}
		if v := r[c]; v != "" {
			sb.WriteString(v[:1] + strings.ToLower(v[1:]))
		}
	}
	return sb.String()
}

func (t *tblDef) admin() string {
	var sb strings.Builder
	fmt.Fprintf(&sb, "create %s (%s)", t.Name, t.colList())
	for _, ix := range t.Idx {
		sb.WriteString(" " + ixText(t, ix))
	}
	return sb.String()
}

func ixText(t *tblDef, ix idxDef) string {
	var cs []string
	for _, c := range ix.Cols {
		if ix.Lower {
			cs = append(cs, t.Cols[c]+"_lower!")
		} else {
			cs = append(cs, t.Cols[c])
		}
	}
	s := map[byte]string{'k': "key", 'i': "index", 'u': "index unique"}[ix.Mode] + "(" + strings.Join(cs, ",") + ")"
	return s
}

// pkIdx is the index used as the row identity in the model: the first key.
func (t *tblDef) pkIdx() int {
	for i, ix := range t.Idx {
		if ix.Mode == 'k' {
			return i
		}
	}
	panic("table without key")
}

// row is a model row: raw (packed) field values.
type row []string

func val(s string) string {
	if s == "" {
		return ""
	}
	return string(rune(core.PackString)) + s
}

func (r row) rec() core.Record {
	var rb core.RecordBuilder
	for _, f := range r {
		rb.AddRaw(f)
	}
	return rb.Build()
}

func (r row) String() string {
	var fs []string
	for _, f := range r {
		fs = append(fs, fmt.Sprintf("%q", strings.TrimPrefix(f, string(rune(core.PackString)))))
	}
	return "[" + strings.Join(fs, " ") + "]"
}

func (r row) eq(o row) bool {
	if len(r) != len(o) {
		return false
	}
	for i := range r {
		if r[i] != o[i] {
			return false
		}
	}
	return true
}

func (r row) tok() string { return r[len(r)-1] }

func fieldsOf(r row, cols []int) string {
	var sb strings.Builder
	for i, c := range cols {
		if i > 0 {
			sb.WriteString("\x00\x01")
		}
		sb.WriteString(r[c])
	}
	return sb.String()
}

func allEmpty(r row, cols []int) bool {
	for _, c := range cols {
		if r[c] != "" {
			return false
		}
	}
	return true
}

func rowFromRec(rec core.Record, ncols int) row {
	r := make(row, ncols)
	for i := range r {
		r[i] = rec.GetRaw(i)
	}
	return r
}

// tableState maps the primary key fields to the row.
type tableState map[string]row

// dbModel is the logical contents of the database.
type dbModel map[string]tableState

func (m dbModel) clone() dbModel {
	c := dbModel{}
	for t, ts := range m {
		c2 := make(tableState, len(ts))
		for k, r := range ts {
			c2[k] = r
		}
		c[t] = c2
	}
	return c
}

func (m dbModel) equal(o dbModel) bool {
	if len(m) != len(o) {
		return false
	}
	for t, ts := range m {
		os, ok := o[t]
		if !ok || len(ts) != len(os) {
			return false
		}
		for k, r := range ts {
			r2, ok := os[k]
			if !ok || !r.eq(r2) {
				return false
			}
		}
	}
	return true
}

func (m dbModel) diff(o dbModel) string {
	var out []string
	for t, ts := range m {
		for k, r := range ts {
			if r2, ok := o[t][k]; !ok {
				out = append(out, fmt.Sprintf("%s: only in first: %v", t, r))
			} else if !r.eq(r2) {
				out = append(out, fmt.Sprintf("%s: %v vs %v", t, r, r2))
			}
		}
	}
	for t, ts := range o {
		for k, r := range ts {
			if _, ok := m[t][k]; !ok {
				out = append(out, fmt.Sprintf("%s: only in second: %v", t, r))
			}
		}
	}
	sort.Strings(out)
	if len(out) > 12 {
		out = append(out[:12], "...")
	}
	return strings.Join(out, "; ")
}

// writeSet: table -> pk -> new row (nil = deleted).
type writeSet map[string]map[string]row

func (w writeSet) clone() writeSet {
	c := writeSet{}
	for t, m := range w {
		c2 := make(map[string]row, len(m))
		for k, r := range m {
			c2[k] = r
		}
		c[t] = c2
	}
	return c
}

func (w writeSet) set(table, pk string, r row) {
	if w[table] == nil {
		w[table] = map[string]row{}
	}
	w[table][pk] = r
}

// overlay returns base with the write set applied.
func overlay(base dbModel, w writeSet) dbModel {
	m := base.clone()
	for t, ws := range w {
		if m[t] == nil {
			m[t] = tableState{}
		}
		for pk, r := range ws {
			if r == nil {
				delete(m[t], pk)
			} else {
				m[t][pk] = r
			}
		}
	}
	return m
}

// netEmpty reports whether the write set has no effect on base.
func netEmpty(base dbModel, w writeSet) bool {
	for t, ws := range w {
		for pk, r := range ws {
			old, ok := base[t][pk]
			if r == nil && ok {
				return false
			}
			if r != nil && (!ok || !old.eq(r)) {
				return false
			}
		}
	}
	return true
}

// ---------------------------------------------------------------------------------------
// reference semantics of one transaction's operations on its view

type schemaModel struct {
	tables map[string]*tblDef
	order  []string
}

func (sm *schemaModel) pk(table string, r row) string {
	t := sm.tables[table]
	return fieldsOf(r, t.Idx[t.pkIdx()].Cols)
}

// opResult classes
const (
	resOK   = "ok"
	resDup  = "duplicate key"
	resFk   = "blocked by foreign key"
	resDead = "transaction dead"
)

// refs returns the (table, index) pairs whose foreign key points at index ti of table.
type ref struct {
	table string
	idx   int
}

func (sm *schemaModel) refsTo(table string, cols []int) []ref {
	var out []ref
	for _, tn := range sm.order {
		t := sm.tables[tn]
		for i, ix := range t.Idx {
			if ix.FkTable == table && sameInts(ix.FkCols, cols) {
				out = append(out, ref{tn, i})
			}
		}
	}
	return out
}

func sameInts(a, b []int) bool {
	if len(a) != len(b) {
		return false
	}
	for i := range a {
		if a[i] != b[i] {
			return false
		}
	}
	return true
}

// view is a transaction's private state: start snapshot plus own writes.
type view struct {
	sm     *schemaModel
	m      dbModel
	writes writeSet
	depth  int
}

func (v *view) put(table string, r row) {
	pk := v.sm.pk(table, r)
	if v.m[table] == nil {
		v.m[table] = tableState{}
	}
	v.m[table][pk] = r
	v.writes.set(table, pk, r)
}

func (v *view) del(table string, r row) {
	pk := v.sm.pk(table, r)
	delete(v.m[table], pk)
	v.writes.set(table, pk, nil)
}

// dupCheck returns true if inserting r (ignoring the row `except`) would violate a key or
// unique index.
func (v *view) dupCheck(table string, r row, except row, onlyChanged bool) bool {
	t := v.sm.tables[table]
	for _, ix := range t.Idx {
		if ix.Mode == 'i' {
			continue
		}
		if onlyChanged && except != nil && ixVals(r, ix) == ixVals(except, ix) {
			continue // key unchanged by the update
		}
		if ix.Mode == 'u' && allEmpty(r, ix.Cols) {
			continue
		}
		if ix.Mode == 'k' && len(ix.Cols) == 0 {
			for _, o := range v.m[table] {
				if except == nil || !o.eq(except) {
					return true
				}
			}
			continue
		}
		want := ixVals(r, ix)
		for _, o := range v.m[table] {
			if except != nil && o.eq(except) {
				continue
			}
			if ixVals(o, ix) == want {
				return true
			}
		}
	}
	return false
}

// fkMissing returns true if a non-empty foreign key of r has no target row.
func (v *view) fkMissing(table string, r row, old row) bool {
	t := v.sm.tables[table]
	for _, ix := range t.Idx {
		if ix.FkTable == "" || allEmpty(r, ix.Cols) {
			continue
		}
		if old != nil && fieldsOf(r, ix.Cols) == fieldsOf(old, ix.Cols) {
			continue // unchanged key is not re-checked on update
		}
		want := fieldsOf(r, ix.Cols)
		found := false
		for _, o := range v.m[ix.FkTable] {
			if fieldsOf(o, ix.FkCols) == want {
				found = true
				break
			}
		}
		if !found {
			return true
		}
	}
	return false
}

func (v *view) children(table string, r row, cols []int) map[ref][]row {
	out := map[ref][]row{}
	if allEmpty(r, cols) {
		return out
	}
	want := fieldsOf(r, cols)
	for _, rf := range v.sm.refsTo(table, cols) {
		ct := v.sm.tables[rf.table]
		for _, o := range v.m[rf.table] {
			if fieldsOf(o, ct.Idx[rf.idx].Cols) == want {
				out[rf] = append(out[rf], o)
			}
		}
	}
	return out
}

// output applies an insert; returns the set of acceptable outcomes.
func (v *view) output(table string, r row) []string {
	var fail []string
	if v.dupCheck(table, r, nil, false) {
		fail = append(fail, resDup)
	}
	if v.fkMissing(table, r, nil) {
		fail = append(fail, resFk)
	}
	if len(fail) > 0 {
		return fail
	}
	v.put(table, r)
	return []string{resOK}
}

// delete applies a delete with the documented foreign key rules. note describes the
// foreign key situation (for known-finding signatures). dead is true when the
// implementation is expected to have aborted the transaction (failure inside a cascade).
func (v *view) delete(table string, r row) (res []string, note string, dead bool) {
	if v.depth > 50 {
		return []string{resDead}, "cascade-cycle", true
	}
	v.depth++
	defer func() { v.depth-- }()
	t := v.sm.tables[table]
	// block checks first, over every index that is a foreign key target
	for _, ix := range t.Idx {
		if ix.Mode == 'i' {
			continue
		}
		for rf, kids := range v.children(table, r, ix.Cols) {
			if len(kids) == 0 {
				continue
			}
			mode := v.sm.tables[rf.table].Idx[rf.idx].FkMode
			if mode&2 == 0 { // does not cascade deletes: refuse
				return []string{resFk}, "delete-target-with-sources/" + modeName(mode), false
			}
		}
	}
	// cascades
	for _, ix := range t.Idx {
		if ix.Mode == 'i' {
			continue
		}
		for rf, kids := range v.children(table, r, ix.Cols) {
			mode := v.sm.tables[rf.table].Idx[rf.idx].FkMode
			if mode&2 == 0 {
				continue
			}
			for _, k := range kids {
				if cur, ok := v.m[rf.table][v.sm.pk(rf.table, k)]; !ok || !cur.eq(k) {
					continue // already removed by an earlier cascade
				}
				sub, n, _ := v.delete(rf.table, k)
				if sub[0] != resOK {
					return sub, "cascade/" + n, true
				}
			}
		}
	}
	v.del(table, r)
	return []string{resOK}, "", false
}

func modeName(m int) string {
	switch m {
	case fkBlock:
		return "block"
	case fkCascadeUpdate:
		return "cascade-update"
	case fkCascade:
		return "cascade"
	}
	return fmt.Sprint(m)
}

// update applies an update of old to nw.
func (v *view) update(table string, old, nw row) (res []string, note string, dead bool) {
	if old.eq(nw) {
		return []string{resOK}, "", false
	}
	t := v.sm.tables[table]
	var fail []string
	if v.dupCheck(table, nw, old, true) {
		fail = append(fail, resDup)
	}
	if v.fkMissing(table, nw, old) {
		fail = append(fail, resFk)
	}
	// changing a referenced key
	for _, ix := range t.Idx {
		if ix.Mode == 'i' || fieldsOf(old, ix.Cols) == fieldsOf(nw, ix.Cols) {
			continue
		}
		for rf, kids := range v.children(table, old, ix.Cols) {
			if len(kids) == 0 {
				continue
			}
			mode := v.sm.tables[rf.table].Idx[rf.idx].FkMode
			if mode&1 == 0 {
				fail = append(fail, resFk)
				note = "update-target-with-sources/" + modeName(mode)
			}
		}
	}
	if len(fail) > 0 {
		return fail, note, false
	}
	// cascade updates, to any depth
	if fails, n := v.cascade(table, old, nw); len(fails) > 0 {
		return fails, n, true
	}
	return []string{resOK}, "", false
}

// cascade moves a row whose change has been accepted and applies the cascading updates of
// the rows that refer to its changed keys, recursively (a cascaded row can itself be the
// target of foreign keys). It returns the kinds of failure that the cascade can run into
// (the implementation stops at the first one and aborts the transaction).
func (v *view) cascade(table string, old, nw row) (fails []string, note string) {
	if v.depth > 50 {
		return []string{resDead}, "cascade-cycle"
	}
	v.depth++
	defer func() { v.depth-- }()
	t := v.sm.tables[table]
	type upd struct {
		table    string
		old, new row
	}
	// computed on the view before the row moves
	var ups []upd
	for _, ix := range t.Idx {
		if ix.Mode == 'i' || fieldsOf(old, ix.Cols) == fieldsOf(nw, ix.Cols) {
			continue
		}
		for rf, kids := range v.children(table, old, ix.Cols) {
			cix := v.sm.tables[rf.table].Idx[rf.idx]
			if cix.FkMode&1 == 0 {
				continue
			}
			for _, k := range kids {
				nk := append(row(nil), k...)
				for j, c := range cix.Cols {
					nk[c] = nw[ix.Cols[j]]
				}
				ups = append(ups, upd{rf.table, k, nk})
			}
		}
	}
	// the row moves first in the model; the implementation updates the referring rows first,
	// but both are inside one atomic operation
	v.del(table, old)
	v.put(table, nw)
	failset := map[string]bool{}
	for _, u := range ups {
		if v.dupCheck(u.table, u.new, u.old, true) {
			failset[resDup] = true
			note = "cascade-update-dup"
			continue
		}
		// a key of the referring row that changes may itself be referred to
		ct := v.sm.tables[u.table]
		blocked := false
		for _, ix := range ct.Idx {
			if ix.Mode == 'i' || fieldsOf(u.old, ix.Cols) == fieldsOf(u.new, ix.Cols) {
				continue
			}
			for rf, kids := range v.children(u.table, u.old, ix.Cols) {
				if len(kids) > 0 && v.sm.tables[rf.table].Idx[rf.idx].FkMode&1 == 0 {
					blocked = true
				}
			}
		}
		if blocked {
			failset[resFk] = true
			note = "cascade/update-target-with-sources"
			continue
		}
		f, n := v.cascade(u.table, u.old, u.new)
		for _, x := range f {
			failset[x] = true
		}
		if n != "" {
			note = n
		}
	}
	for _, k := range []string{resDup, resFk, resDead} {
		if failset[k] {
			fails = append(fails, k)
		}
	}
	return fails, note
}

// ---------------------------------------------------------------------------------------
// reads evaluated on a model state

type keyFn func(table string, idx int, r row) string

// evalScan returns the tokens of the rows of table whose index key lies in [org,end), in
// index order (or reverse), at most max of them, and whether the scan reached the end.
func evalScan(m dbModel, kf keyFn, table string, idx int, org, end string, rev bool, max int) ([]string, bool) {
	type kr struct {
		k string
		r row
	}
	var ks []kr
	for _, r := range m[table] {
		k := kf(table, idx, r)
		if k >= org && k < end {
			ks = append(ks, kr{k, r})
		}
	}
	sort.Slice(ks, func(i, j int) bool { return ks[i].k < ks[j].k })
	if rev {
		for i, j := 0, len(ks)-1; i < j; i, j = i+1, j-1 {
			ks[i], ks[j] = ks[j], ks[i]
		}
	}
	var out []string
	for i, x := range ks {
		if i >= max {
			return out, false
		}
		out = append(out, x.r.tok())
	}
	return out, true
}

// evalLookup returns the token of the row whose index key equals key ("" if none).
func evalLookup(m dbModel, kf keyFn, table string, idx int, key string) string {
	for _, r := range m[table] {
		if kf(table, idx, r) == key {
			return r.tok()
		}
	}
	return ""
}
