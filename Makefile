# Offline build of the verification machinery (see DESIGN.md).
GO := env GOFLAGS=-mod=mod GOPROXY=off GOSUMDB=off GOTOOLCHAIN=local GOWORK=off PATH=/opt/veriftools/go1.26.8/bin:$(PATH) go

setup: bin/instr bin/check

bin/instr: instr/main.go instr/go.mod
	cd instr && $(GO) build -o ../bin/instr .

bin/check: driver/main.go driver/props.go driver/go.mod
	cd driver && $(GO) build -o ../bin/check .

.PHONY: setup
