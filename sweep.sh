#!/bin/sh
# sweep.sh <seed...> : runs every registered quick check (registered budget) with each base seed; prints a line per run
cd /verif
for seed in "$@"; do
for id in $(python3 -c "import json; print(' '.join(c['property_id'] for c in json.load(open('MANIFEST.json'))['checks']))"); do
  ./check $id quick -seed $seed > /tmp/sweep_${id}_$seed.log 2>&1
  echo "$id seed=$seed exit=$? $(grep -a -m1 '^VIOLATION\|^OK\|machinery' /tmp/sweep_${id}_$seed.log | cut -c1-150)"
done
done
