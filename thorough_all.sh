#!/bin/sh
# thorough_all.sh [seconds] [seed]: runs every registered thorough check once with the given
# budget per check and seed; prints a summary line per check
secs=${1:-1200}; seed=${2:-1}
cd /verif
for id in $(python3 -c "import json; print(' '.join(c['property_id'] for c in json.load(open('MANIFEST.json'))['checks']))"); do
  start=$(date +%s)
  ./check $id thorough -seconds $secs -seed $seed > /tmp/thorough_$id.log 2>&1
  code=$?
  echo "$id exit=$code $(( $(date +%s) - start ))s $(grep -a -m1 '^VIOLATION\|^OK\|machinery' /tmp/thorough_$id.log | cut -c1-160)"
done
