#!/usr/bin/env python3
"""Regenerates MANIFEST.json from the table below (kept in one place so that the claimed
set, the driver's property table and the not_applicable list cannot drift apart)."""
import json, subprocess

NA = {
 "C09": "index iteration is a deterministic function of the layer contents and the call sequence on one goroutine: no schedule, clock, fault or second party for a simulator to control (DESIGN.md section 7)",
 "C10": "stored btrees are a pure function of the key batches applied; no concurrency, time or I/O fault in the statement (crash behaviour of saved trees is C05)",
 "C11": "ixbuf merge is a pure function of its input buffers",
 "C12": "composite key encoding is a pure function of field tuples",
 "C13": "pack/unpack is a pure function of values",
 "C14": "record and varint encodings are pure round trips",
 "C15": "hamt put/delete/freeze and chain write/read cycles are a sequential function of the operation list; exercised inside C04/C05/C21 runs but the property's own quantifier is input generation, not simulation",
 "C22": "query results are a pure function of query text and database contents; strategy choice is input-space coverage, not a schedule or fault",
 "C23": "query access contracts are sequential calls on one goroutine",
 "C24": "query update statements are a sequential function of table contents and statement",
 "C25": "expression evaluation is pure",
 "C26": "numeric operations are pure arithmetic",
 "C27": "decimal arithmetic is pure",
 "C28": "value comparison and hashing are pure functions",
 "C29": "closure scoping is single-thread program semantics (sharing between threads is C43)",
 "C30": "constant folding is a pure compiler transformation",
 "C31": "display/parse round trip is pure",
 "C32": "lexer/parser totality is a property of a pure function of the input text",
 "C33": "date arithmetic is pure calendar arithmetic; it reads no clock",
 "C35": "record rules are a sequential get/set history on one record in one thread",
 "C36": "container operations are sequential list/map semantics",
 "C37": "regular expression matching is a pure function of pattern and subject",
 "C38": "string helpers are pure",
 "C39": "ordered sets, range sets, sort lists and caches are sequential abstract data types in the statement",
 "C42": "transaction blocks are control-flow semantics of one interpreter thread",
 "C44": "trigger dispatch is a synchronous call inside the changing transaction, a sequential function of the operation history",
}

# property -> (level, level text, level note, technique, design ref)
H3_NOTE = "Trusted: Go toolchain and testing/synctest; the instrumenter and sim libraries (determinism self-test: ./check selftest <id>); the reference model; gSuneido's own ixkey.Spec.Key for computing index keys of model rows; interleavings at synchronisation operations only (no instruction-level races); heap store instead of the mmap file; sampling, not enumeration."
H3_TECH = "deterministic simulation: seeded scheduler over the real db19 pipeline + per-state refinement check against a reference model"

def h3(text):
    return ("exploration", text + " Seeded search (policies: random, PCT on all yields or on lock operations, run-to-block, starvation; time advance and client stalls inside operations as faults) over interleavings of client tasks, checker, merger, merge/persist workers and tickers of the real db19 pipeline, with every published database state compared with an executable reference model. A clean batch is evidence, not proof.", H3_NOTE, H3_TECH, "6 (H3), 7")

CLAIMED = {
 "C01": h3("Oracle: every committed update transaction's recorded lookups and scans are re-evaluated on the model state just before its commit point (plus its own earlier writes) and must equal what it saw; no row it wrote may have changed between its snapshot and its commit."),
 "C02": h3("Oracle: every read of a long-lived read transaction equals the model state at the version it was opened at, repeated reads are identical, and every read of an update transaction equals its start snapshot plus its own writes; scratch tables are created and dropped meanwhile (a snapshot must not lose a table)."),
 "C03": h3("Oracle: each published state that differs logically from its predecessor must be the predecessor plus the complete write set of exactly one transaction whose Complete is in flight; Complete reports success iff its writes were published; aborted / failed / timed-out transactions are never published; reported row counts and sizes equal the actual rows and bytes of every state."),
 "C06": h3("Oracle: in every published state every index (including ones created by alter create / ensure while writers run) holds exactly the primary index's rows, each under the key computed from the row, in strictly increasing order; db.Check(full) during and at the end of the run returns nil."),
 "C07": h3("Oracle: no published state has two rows with the same key tuple, the same non-empty unique value, or more than one row in a key() table; an insert or update that collides with the transaction's own snapshot plus writes must raise, and one that does not must not."),
 "C08": h3("Oracle: no published state has a non-empty foreign key without target row; deleting / changing a referenced target must be refused unless the key cascades that kind of change (block, cascade, cascade update as documented), in which case the model's cascaded deletes / updates are part of the transaction's write set and are checked by the attribution oracle."),
 "C16": h3("Oracle: states published by merges, persists and schema operations (no commit in flight, or no committing transaction whose write set explains the change) must have exactly the logical contents of their predecessor in every index; each commit is applied exactly once; row count and size statistics add up in every state; full check at the end."),
 "C17": ("exploration",
   "Seeded search over interleavings of producers and the consumer of the real PriorityQueue under the simulator's scheduler (random, PCT, run-to-block, starvation policies), with exactly-once, per-transaction FIFO and porcupine linearizability oracles against a sequential priority-queue specification, plus stall detection for lost wake-ups. Sampling, not enumeration: a clean batch is evidence, not proof.",
   "Trusted: Go toolchain and testing/synctest; the instrumenter and simrt/simsync (mutex/cond simulated, interleavings at synchronisation operations); porcupine v1.3.0.",
   "deterministic simulation: seeded scheduler over real queue code + porcupine linearizability check", "6 (H1), 7 (C17)"),
}

H4_NOTE = "Trusted: Go toolchain and testing/synctest; the instrumenter and sim libraries; real file system calls; the crash model is the page-cache image at a scheduler step, truncated (power-loss page subsets are out of scope); transactions in this harness are sequential (client concurrency is H3's subject); sampling, not enumeration (within a run the structural truncation offsets of C05 are enumerated up to a budget of 150 damaged files)."
H4_TECH = "deterministic simulation: generated histories on a real mmap file under the seeded scheduler; "

def h4(level, text, tech):
    return (level, text + " A clean batch is evidence, not proof.", H4_NOTE, H4_TECH + tech, "6 (H4), 7")

CLAIMED.update({
 "C04": h4("exploration", "Histories of admin requests, transactions, explicit and ticker persists, think times and clean restarts; before every clean close a full snapshot (schema text, columns, indexes with primary/contains-key flags, foreign key links in both directions, views, info entries, every index's keys and offsets, rows, counts) is taken and must equal the snapshot after reopen; rows must equal the model maintained from accepted operations.", "differential snapshot before close / after reopen + row model"),
 "C05": h4("fault_enumeration", "1-3 crash images taken at tape-chosen scheduler steps plus the cleanly closed file; each truncated at structural offsets +-1, bytes inside the last state records and shutdown markers and tape-chosen offsets, with absent / zero / garbage tails (<=150 damaged files per run). Open must return an error (or open a clean earlier file to that close's contents; a file without header may be refused by a fatal exit), check and repair must return; if a complete state record lies below the truncation point repair must succeed, the database must open, pass the full check and hold the contents of an admissible history prefix of the newest such record; otherwise repair must fail.", "crash-image truncation enumeration with open / check / repair / reopen oracle"),
 "C19": h4("exploration", "Every persisted state is recorded when it is published (offset, publication time, admissible range of history prefixes: at least what an explicit Persist/Close had to save, at most what had been started). Stepping with Asof(-1) from the current state must visit exactly these states in reverse order with non-decreasing times not after their publication, each showing the model after an admissible prefix, and stepping forwards with Asof(1) must visit them again in order; Asof(t) for tape-chosen times must land on max{i: t_i <= t} or the first state; the answers a concurrent reader got for Asof(a moment ago) while persists were in progress must still be right at the end; live and after reopen; files span several 128 KB chunks.", "persisted-state history vs asof stepping and lookup"),
 "C20": h4("exploration", "At the end of each history: DumpDatabase + LoadDatabase, Compact of a copy, DumpTable + LoadTable; each result must open, pass the full check and have the same tables, live columns, derived columns, indexes, foreign keys, views and rows as the original; a dump edited so that an index over columns with equal values in two rows is declared a key or unique index must be refused by LoadDatabase and LoadTable; worker pools of the tools run under the scheduler with 1-8 workers.", "logical comparison of the database before / after the tools"),
 "C21": h4("exploration", "After every admin request (valid or invalid, incl. foreign keys to the same table and must-fail requests): refused => physical snapshot unchanged (incl. index flags); succeeded => must-fail rules respected, every table has a key, index columns exist, Fk/FkToHere mutually consistent with correct index numbers, schema and info tables agree, nrows/size match, rows through every index equal the model, schema text re-parses; a transaction started before the request must afterwards still see exactly what it saw (published states never change); the links recomputed by linkFkeys after restart must equal the incrementally maintained ones.", "schema invariants + refused-means-unchanged + restart differential"),
})

H6_NOTE = "Trusted: Go toolchain, testing/synctest and crypto/tls; the instrumenter and sim libraries; the simulated transport (fragmentation, short reads, delays; no resets, duplication or reordering); the client half of the hello/TLS upgrade is a copy of ConnectClient's code after dialing; sampling, not enumeration."
CLAIMED.update({
 "C40": ("exploration", "Differential simulation: 1-4 sessions on one simulated connection run generated programs (transactions, queries incl. project / remove over tables with a large middle column, gets, cursors, outputs up to 900 KB, updates, erases, query statements, get-one, read / write counts, admin requests, requests abandoned half built) through the real client, TLS, mux, workers and server command handlers while the same programs run directly on a DbmsLocal of an identical twin database; every operation's logical result or error must be equal, each session must receive exactly its own responses, and both databases must have equal contents at the end. The tape decides message fragmentation, short reads, delivery delays and every interleaving of sessions, mux reader, workers and both database pipelines. A clean batch is evidence, not proof.", H6_NOTE, "deterministic simulation: real client and server over a simulated transport, differential against direct local access", "6 (H6), 7 (C40)"),
 "C41": ("exploration", "A database with users; one connection authenticates properly and keeps working; 1-3 unauthenticated connections send generated sequences over every typed request and raw transaction / query / cursor commands, plus authentication attempts (wrong password, right password over own fresh / used nonce, over another connection's nonce, made up token, tokens of the authenticated party, an unknown user with an empty password hash) with think times that let nonces and tokens expire; half of the unauthenticated connections carry a second concurrent session that keeps sending must-be-refused requests while the first authenticates. Oracle: every request outside {Auth, Nonce, SessionId, LibGet, Libraries, EndSession} is refused, Auth succeeds only with the right hash over the connection's own unused fresh nonce (or a token handed to an authenticated party), the database contents do not change and the authenticated session keeps working. A clean batch is evidence, not proof.", H6_NOTE, "deterministic simulation: generated protocol sessions on unauthorized connections against the real server", "6 (H6), 7 (C41)"),
 "C43": ("exploration", "LIMITED claim: with a scheduling point before every statement of core/suobject.go and core/surecord.go and every lock operation, 2-4 threads perform single-call operations on one shared container (SuObject, SuRecord, row-backed SuRecord) incl. taking copy-on-write copies; oracles: no Go run-time error, the recorded history (incl. the final contents) is linearizable (porcupine) against the same code run single-threaded, and private copies stay private. This decides the crash / torn-result part of the property at sequentially consistent granularity; it cannot observe data races in the Go memory model sense (tasks are serialised by the simulator), which need the race detector on real parallel executions - outside this technique. Records are used without rules and observers; closures and classes are not covered.", "Trusted: Go toolchain and testing/synctest; instrumenter (statement yields) and simsync; porcupine v1.3.0; sequential SuObject semantics as the specification.", "deterministic simulation: statement-level interleaving of shared-object methods + porcupine linearizability check", "6 (H7), 7 (C43)"),
 "C34": ("exploration",
   "Seeded search over interleavings of the real server ticker, the real client expiry task, 1-4 goroutines sharing the client side batching and 0-3 direct server callers, with the simulated clock started at any millisecond, advanced by 1 ms - 30 s between calls and jumped by up to +-1 h. Oracles: all timestamps ever returned are pairwise distinct (as packed values) and each caller's sequence is strictly increasing under the language's comparison.",
   "Trusted: Go toolchain and testing/synctest (fake clock); simsync; one batching client per run, other clients modelled as direct server callers; the client reaches the server through a stub IDbms (the wire protocol is C40's subject).",
   "deterministic simulation: seeded scheduler + simulated clock with jumps over the real timestamp code", "6 (H5), 7 (C34)"),
 "C18": ("exploration",
   "Seeded search over interleavings of 2-6 concurrent allocators of the real Stor.Alloc/extend at every atomic operation and the extend lock, with tape-chosen chunk sizes 64-4096 so that chunk boundaries are crossed constantly. Oracles after every allocation and at the end: len==cap==n, ranges pairwise disjoint, no chunk straddle, within Size(), Data(off) aliases the slice, and a unique byte pattern per allocation still intact (memory-level non-overlap). The 'too many retries' panic is the permitted loud failure.",
   "Trusted: Go toolchain and testing/synctest; simatomic/simsync scheduling points (sequentially consistent granularity); heap store instead of mmap.",
   "deterministic simulation: seeded scheduler over real allocator code + overlap/aliasing invariants", "6 (H2), 7 (C18)"),
})

NOT_YET = {}

def main():
    props = [json.loads(l) for l in open('/verif/properties.jsonl')]
    checks = []
    na = []
    for p in props:
        pid = p['id']
        if pid in CLAIMED:
            lvl, text, note, tech, ref = CLAIMED[pid]
            checks.append({
                "property_id": pid,
                "quick_cmd": "./check %s quick" % pid,
                "thorough_cmd": "./check %s thorough" % pid,
                "evidence_file": "/verif/evidence/%s.json" % pid,
                "replay_cmd_template": "./check %s -replay {path}" % pid,
                "engine": "simrt",
                "level_claimed": {"category": lvl, "text": text, "design_ref": "DESIGN.md section " + ref},
                "level_note": note,
                "technique": tech,
            })
        elif pid in NA:
            na.append({"property_id": pid, "reason": "not applicable to deterministic simulation: " + NA[pid]})
        else:
            na.append({"property_id": pid, "reason": NOT_YET.get(pid, "applicable (see DESIGN.md section 7) but its harness is not built yet, so nothing is claimed")})
    hooks = subprocess.run(['git', '-C', '/repo', 'log', '--format=%H %s', '--grep=^verif hook'], capture_output=True, text=True).stdout.split('\n')
    hooks = [h.split()[0] for h in hooks if h.strip()]
    m = {
        "version": 1,
        "setup_cmd": "make -C /verif setup",
        "hooks": {
            "guard": "verif (Go build tag)",
            "enable": "go test -c -tags verif -overlay <gen>/overlay.json (the overlay holds the mechanically instrumented copies of /repo's files; /repo itself is never edited by a check)",
            "baseline_off_cmd": "cd /repo && go test -mod=mod -json -vet=off -count=1 -timeout 25m ./...",
            "source_commits": hooks,
            "add_only": True,
        },
        "engines": [
            {"name": "simrt", "path": "/verif/sim/simrt", "serves_properties": sorted(CLAIMED),
             "kind_free_text": "deterministic simulator: seeded scheduler parking real goroutines at synchronisation points inside a testing/synctest bubble (fake clock), tape-recorded choices, fault injectors, replay and tape minimisation"},
            {"name": "instr", "path": "/verif/instr", "serves_properties": sorted(CLAIMED),
             "kind_free_text": "source-to-source instrumenter (go/packages + go/ast) that inserts the scheduling seams into a copy of /repo delivered through go build -overlay"},
            {"name": "check", "path": "/verif/driver", "serves_properties": sorted(CLAIMED),
             "kind_free_text": "driver: rebuilds from /repo's working tree, runs 16 worker processes over disjoint seed ranges, minimises and replays failures, writes evidence"},
        ],
        "checks": checks,
        "not_applicable": na,
        "notes": "See DESIGN.md. Exit codes: 0 held, 1 VIOLATION line, 2 machinery trouble (never a violation).",
    }
    json.dump(m, open('/verif/MANIFEST.json', 'w'), indent=1)
    print("claimed", len(checks), "not claimed", len(na))

main()
