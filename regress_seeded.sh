#!/bin/sh
# regress_seeded.sh [seconds] [id-prefix...]: every kept seeded change (or those whose
# directory name starts with one of the prefixes) against the check that is recorded as
# catching it (VERIF_PATCH: /repo is not modified; no minimisation). One line per change.
secs=${1:-100}
[ $# -gt 0 ] && shift
cd /verif
for d in seeded/*/; do
  id=$(basename $d)
  if [ $# -gt 0 ]; then
    match=0
    for pfx in "$@"; do case $id in $pfx*) match=1;; esac; done
    [ $match = 1 ] || continue
  fi
  prop=$(python3 -c "
import json,sys
m=json.load(open('$d/meta.json'))
if not m.get('detected_by'): print('SKIP'); sys.exit()
print(m.get('regress_with', m['breaks']))")
  if [ "$prop" = SKIP ]; then echo "$id: recorded as not detectable - skipped"; continue; fi
  start=$(date +%s)
  VERIF_PATCH=/verif/$d/patch.diff ./check $prop quick -seconds $secs -nomin > /tmp/regress_$id.log 2>&1
  code=$?
  echo "$id $prop exit=$code $(( $(date +%s) - start ))s $(grep -a -m1 '^VIOLATION\|^OK\|machinery' /tmp/regress_$id.log | cut -c1-140)"
done
